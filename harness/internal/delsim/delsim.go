// Package delsim is the engine of property C15 (deletion is permanent): ONE local node of a
// space on a real any-store database — real space storage, head storage, ACL list, real
// deletionstate component, real deletion manager (never Run: its 20 s loop goroutine is
// replaced by the verif hook deletionmanager.NewDeleterVerif, one Delete(ctx) = one worker
// run), a real headsync.DiffManager fed by the head-storage observer through a harness-owned
// FIFO that stands for headsync's headUpdater goroutine (drained after every operation, or
// pumped a few entries at a time by the case), a real settings
// object over a real settings SyncTree, real PutSyncTree / BuildSyncTreeOrGetRemote for
// object trees — plus two remote members, each a real replica on its own database, whose
// real SyncTrees produce the message bytes (deletion records on the settings tree, edits of
// object trees). The harness plays the host application's TreeManager and the transport.
//
// The engine only performs mechanics; every judgement lives in harness/c15.
package delsim

import (
	"context"
	"errors"
	"fmt"
	"sort"
	"strings"
	"sync/atomic"
	"testing"

	anystore "github.com/anyproto/any-store"
	"github.com/anyproto/any-store/query"
	"google.golang.org/protobuf/proto"

	"github.com/anyproto/any-sync/app"
	"github.com/anyproto/any-sync/app/ldiff"
	"github.com/anyproto/any-sync/app/logger"
	"github.com/anyproto/any-sync/commonspace/deletionmanager"
	"github.com/anyproto/any-sync/commonspace/deletionstate"
	"github.com/anyproto/any-sync/commonspace/headsync"
	"github.com/anyproto/any-sync/commonspace/headsync/headstorage"
	"github.com/anyproto/any-sync/commonspace/object/accountdata"
	"github.com/anyproto/any-sync/commonspace/object/acl/list"
	"github.com/anyproto/any-sync/commonspace/object/acl/recordverifier"
	"github.com/anyproto/any-sync/commonspace/object/acl/syncacl"
	"github.com/anyproto/any-sync/commonspace/object/acl/syncacl/headupdater"
	"github.com/anyproto/any-sync/commonspace/object/tree/objecttree"
	"github.com/anyproto/any-sync/commonspace/object/tree/synctree"
	"github.com/anyproto/any-sync/commonspace/object/tree/synctree/updatelistener"
	"github.com/anyproto/any-sync/commonspace/object/tree/treechangeproto"
	"github.com/anyproto/any-sync/commonspace/object/tree/treestorage"
	"github.com/anyproto/any-sync/commonspace/object/treemanager"
	"github.com/anyproto/any-sync/commonspace/settings"
	"github.com/anyproto/any-sync/commonspace/settings/settingsstate"
	"github.com/anyproto/any-sync/commonspace/spacestate"
	"github.com/anyproto/any-sync/commonspace/spacestorage"
	"github.com/anyproto/any-sync/commonspace/spacesyncproto"
	"github.com/anyproto/any-sync/commonspace/sync/objectsync/objectmessages"
	"github.com/anyproto/any-sync/commonspace/sync/syncdeps"
	"github.com/anyproto/any-sync/commonspace/syncstatus"
	"github.com/anyproto/any-sync/consensus/consensusproto"
	"github.com/anyproto/any-sync/net/peer"
	"github.com/anyproto/any-sync/protobuf"

	"verif/harness/internal/aclgen"
	"verif/harness/internal/dbutil"
)

// ---- plain records --------------------------------------------------------------------

// Obj is one object tree the harness knows about (root bytes made by the real builders).
type Obj struct {
	Idx     int
	Id      string
	Root    *treechangeproto.RawTreeChangeWithId
	Parent  int  // index of the parent object, -1 for a plain object
	Derived bool // children are derived roots carrying ParentId
}

// Rec is one settings-log record (a deletion change) as the harness decoded it itself
// from the bytes the real code produced: protobuf only, no settings-state code involved.
type Rec struct {
	Id       string
	Raw      *treechangeproto.RawTreeChangeWithId
	Prev     []string
	Ids      []string // ObjectDelete ids carried by the content
	SnapIds  []string // DeletedIds of the snapshot part, if any
	Snapshot bool
	Author   int // 0 local, 1..2 remote member
	Seq      int // production order (a topological order of the log)
}

// Msg is a head update in flight from a remote member to the local node.
type Msg struct {
	From     int
	ObjectId string
	Payload  []byte // marshalled spacesyncproto.ObjectSyncMessage
	RecIds   []string
	Seq      int
}

// ---- world ----------------------------------------------------------------------------

type World struct {
	T            *testing.T
	Scratch      *dbutil.Scratch
	SpaceId      string
	AclRecords   []*consensusproto.RawRecordWithId
	Keys         []*accountdata.AccountKeys
	SettingsRoot *treechangeproto.RawTreeChangeWithId
	SettingsId   string
	Local        *Local
	Remotes      []*Remote // index 0 unused; members 1 and 2
	Objs         []*Obj
	ById         map[string]*Obj
	Recs         []*Rec // every settings record ever produced, production order
	RecById      map[string]*Rec
	Pool         []*Msg
	seq          int
	clock        int64
	seedBytes    []byte
	aclForRoots  list.AclList
	Log          []string
	// NextSnapshot is what settings.DoSnapshot answers for the next local DeleteObject.
	NextSnapshot bool
}

func (w *World) Logf(f string, a ...any) {
	if len(w.Log) < 3000 {
		w.Log = append(w.Log, fmt.Sprintf(f, a...))
	}
}

func peerName(i int) string { return fmt.Sprintf("peer-%d", i) }

func peerIdx(name string) int {
	var i int
	if _, err := fmt.Sscanf(name, "peer-%d", &i); err != nil {
		return -1
	}
	return i
}

// New must be called inside a synctest bubble (aclgen.Bubble): the ACL bytes and every
// time.Now() of the real code are then reproducible.
// New builds the ACL (owner = local account 0, members 1 and 2 writers), the settings
// root, the two remote replicas and starts the local node on a fresh database.
func New(t *testing.T, seed uint64, asyncIndex bool) (w *World, err error) {
	w = &World{T: t, SpaceId: "spaceid.verif", ById: map[string]*Obj{}, RecById: map[string]*Rec{}, clock: 946_684_800, seedBytes: []byte(fmt.Sprintf("c15-%d", seed))}
	aw, err := aclgen.NewWorld(3, seed, false)
	if err != nil {
		return nil, err
	}
	for i := 1; i < 3; i++ {
		st, err := aw.Apply(aclgen.Op{Kind: "add", Actor: 0, Target: i, Perm: aclgen.Writer})
		if err != nil {
			return nil, err
		}
		if !st.Accepted {
			return nil, fmt.Errorf("delsim: could not add member %d: %s", i, st.BuildErr)
		}
	}
	w.AclRecords = aw.Records
	w.Keys = aw.Keys
	w.Scratch, err = dbutil.New("delsim-")
	if err != nil {
		return nil, err
	}
	defer func() {
		if err != nil {
			w.Close()
		}
	}()
	w.SettingsRoot, err = objecttree.CreateObjectTreeRoot(objecttree.ObjectTreeCreatePayload{
		PrivKey: w.Keys[0].SignKey, ChangeType: "settings", SpaceId: w.SpaceId, Seed: w.seedBytes, Timestamp: w.clock,
	}, aw.Lists[0])
	if err != nil {
		return nil, err
	}
	w.SettingsId = w.SettingsRoot.Id
	w.aclForRoots = aw.Lists[0]
	w.Remotes = make([]*Remote, 3)
	for i := 1; i < 3; i++ {
		if w.Remotes[i], err = w.newRemote(i); err != nil {
			return nil, fmt.Errorf("remote %d: %w", i, err)
		}
	}
	w.Local = &Local{w: w, Async: asyncIndex}
	w.Local.TM = &TreeManager{l: w.Local}
	settings.DoSnapshot = func(int) bool { return w.NextSnapshot }
	if err = w.Local.Start(true, nil); err != nil {
		return nil, fmt.Errorf("local start: %w", err)
	}
	return w, nil
}

// Close releases everything.
func (w *World) Close() {
	if w.Local != nil {
		w.Local.Stop()
	}
	for _, r := range w.Remotes {
		if r == nil {
			continue
		}
		for _, t := range r.Trees {
			t.Close()
		}
		if r.Settings != nil {
			r.Settings.Close()
		}
		if r.DB != nil {
			r.DB.Close()
		}
	}
	if w.Scratch != nil {
		w.Scratch.Remove()
	}
	settings.DoSnapshot = objecttree.DoSnapshot
}

// open opens a scratch database with two read connections instead of any-store's default
// pool: opening the default pool dominates the cost of a case and nothing here reads
// concurrently.
func (w *World) open(name string) (anystore.DB, error) {
	return anystore.Open(context.Background(), w.Scratch.Path(name), &anystore.Config{ReadConnections: 2})
}

func (w *World) tick() int64 { w.clock++; return w.clock }

func (w *World) createPayload() spacestorage.SpaceStorageCreatePayload {
	return spacestorage.SpaceStorageCreatePayload{
		AclWithId:           aclgen.CloneRec(w.AclRecords[0]),
		SpaceHeaderWithId:   &spacesyncproto.RawSpaceHeaderWithId{RawHeader: []byte("header"), Id: w.SpaceId},
		SpaceSettingsWithId: &treechangeproto.RawTreeChangeWithId{RawChange: w.SettingsRoot.RawChange, Id: w.SettingsRoot.Id},
	}
}

func cloneRaw(r *treechangeproto.RawTreeChangeWithId) *treechangeproto.RawTreeChangeWithId {
	return &treechangeproto.RawTreeChangeWithId{RawChange: append([]byte(nil), r.RawChange...), Id: r.Id}
}

// ---- objects ---------------------------------------------------------------------------

// NewPlainRoot makes the root of a plain object signed by account author.
func (w *World) NewPlainRoot(author int) (*Obj, error) {
	n := len(w.Objs)
	root, err := objecttree.CreateObjectTreeRoot(objecttree.ObjectTreeCreatePayload{
		PrivKey: w.Keys[author].SignKey, ChangeType: "verif.object", ChangePayload: []byte("payload"), SpaceId: w.SpaceId,
		Seed: append(append([]byte(nil), w.seedBytes...), []byte(fmt.Sprintf("-o%d", n))...), Timestamp: w.tick(),
	}, w.aclForRoots)
	if err != nil {
		return nil, err
	}
	o := &Obj{Idx: n, Id: root.Id, Root: root, Parent: -1}
	w.Objs = append(w.Objs, o)
	w.ById[o.Id] = o
	return o, nil
}

// NewChildRoot makes a derived root bound to parent (ParentId in the root change).
func (w *World) NewChildRoot(parent int) (*Obj, error) {
	n := len(w.Objs)
	root, err := objecttree.DeriveObjectTreeRoot(objecttree.ObjectTreeDerivePayload{
		ChangeType: "verif.child", ChangePayload: []byte(fmt.Sprintf("child-%d", n)), SpaceId: w.SpaceId, ParentId: w.Objs[parent].Id,
	}, w.aclForRoots)
	if err != nil {
		return nil, err
	}
	o := &Obj{Idx: n, Id: root.Id, Root: root, Parent: parent, Derived: true}
	w.Objs = append(w.Objs, o)
	w.ById[o.Id] = o
	return o, nil
}

// Children returns the indices of the objects bound to parent.
func (w *World) Children(parent int) []int {
	var out []int
	for _, o := range w.Objs {
		if o.Parent == parent {
			out = append(out, o.Idx)
		}
	}
	return out
}

// ---- decoding of settings records (protobuf only) ----------------------------------------

// DecodeRec decodes a raw settings change without any settings-state code.
func DecodeRec(raw *treechangeproto.RawTreeChangeWithId) (*Rec, error) {
	rc := &treechangeproto.RawTreeChange{}
	if err := rc.UnmarshalVT(raw.RawChange); err != nil {
		return nil, err
	}
	tc := &treechangeproto.TreeChange{}
	if err := tc.UnmarshalVT(rc.Payload); err != nil {
		return nil, err
	}
	r := &Rec{Id: raw.Id, Raw: cloneRaw(raw), Prev: append([]string(nil), tc.TreeHeadIds...), Snapshot: tc.IsSnapshot, Author: -1}
	if len(tc.TreeHeadIds) == 0 {
		return r, nil // root
	}
	sd := &spacesyncproto.SettingsData{}
	if err := sd.UnmarshalVT(tc.ChangesData); err != nil {
		return nil, err
	}
	for _, c := range sd.Content {
		if od := c.GetObjectDelete(); od != nil {
			r.Ids = append(r.Ids, od.Id)
		}
	}
	if sd.Snapshot != nil {
		r.SnapIds = append(r.SnapIds, sd.Snapshot.DeletedIds...)
	}
	return r, nil
}

func (w *World) register(raw *treechangeproto.RawTreeChangeWithId, author int) (*Rec, error) {
	if r, ok := w.RecById[raw.Id]; ok {
		return r, nil
	}
	r, err := DecodeRec(raw)
	if err != nil {
		return nil, err
	}
	r.Author = author
	r.Seq = len(w.Recs)
	w.Recs = append(w.Recs, r)
	w.RecById[r.Id] = r
	return r, nil
}

// changesOf extracts the raw changes a head update carries.
func changesOf(hu *objectmessages.HeadUpdate) ([]*treechangeproto.RawTreeChangeWithId, error) {
	pm, err := hu.ProtoMessage()
	if err != nil {
		return nil, err
	}
	osm := pm.(*spacesyncproto.ObjectSyncMessage)
	tsm := &treechangeproto.TreeSyncMessage{}
	if err := tsm.UnmarshalVT(osm.Payload); err != nil {
		return nil, err
	}
	if u := tsm.GetContent().GetHeadUpdate(); u != nil {
		return u.Changes, nil
	}
	return nil, nil
}

// ---- remote members ----------------------------------------------------------------------

type Remote struct {
	w        *World
	Idx      int
	Keys     *accountdata.AccountKeys
	DB       anystore.DB
	Space    spacestorage.SpaceStorage
	Acl      list.AclList
	Settings synctree.SyncTree
	Trees    map[string]synctree.SyncTree
	Has      map[string]bool // settings records this member holds
	Mute     bool            // broadcasts are not put in flight (harness-internal synchronisation)
}

func (w *World) newRemote(i int) (*Remote, error) {
	ctx := context.Background()
	db, err := w.open(fmt.Sprintf("remote-%d.db", i))
	if err != nil {
		return nil, err
	}
	r := &Remote{w: w, Idx: i, Keys: w.Keys[i], DB: db, Trees: map[string]synctree.SyncTree{}, Has: map[string]bool{}}
	r.Space, err = spacestorage.Create(ctx, db, w.createPayload())
	if err != nil {
		db.Close()
		return nil, err
	}
	aclSt, err := r.Space.AclStorage()
	if err != nil {
		return nil, err
	}
	r.Acl, err = list.BuildAclListWithIdentity(r.Keys, aclSt, recordverifier.NewValidateFull())
	if err != nil {
		return nil, err
	}
	for _, rec := range w.AclRecords[1:] {
		if err := r.Acl.AddRawRecord(aclgen.CloneRec(rec)); err != nil {
			return nil, err
		}
	}
	r.Settings, err = synctree.BuildSyncTreeOrGetRemote(ctx, w.SettingsId, r.deps())
	return r, err
}

func (r *Remote) deps() synctree.BuildDeps {
	return synctree.BuildDeps{
		SpaceId:         r.w.SpaceId,
		SyncClient:      &remoteClient{RequestFactory: synctree.NewRequestFactory(r.w.SpaceId), r: r},
		AclList:         r.Acl,
		SpaceStorage:    r.Space,
		OnClose:         func(string) {},
		SyncStatus:      syncstatus.NewNoOpSyncStatus(),
		BuildObjectTree: objecttree.BuildObjectTree,
	}
}

type remoteClient struct {
	synctree.RequestFactory
	r *Remote
}

func (c *remoteClient) Broadcast(ctx context.Context, hu *objectmessages.HeadUpdate) error {
	r := c.r
	w := r.w
	chs, err := changesOf(hu)
	if err != nil {
		return err
	}
	var recIds []string
	if hu.ObjectId() == w.SettingsId {
		for _, ch := range chs {
			rec, err := w.register(ch, r.Idx)
			if err != nil {
				return err
			}
			r.Has[rec.Id] = true
			recIds = append(recIds, rec.Id)
		}
	}
	if r.Mute || len(chs) == 0 {
		return nil
	}
	cp := hu.Copy().(*objectmessages.HeadUpdate)
	cp.SetPeerId(peerName(0))
	pm, err := cp.ProtoMessage()
	if err != nil {
		return err
	}
	b, err := pm.(*spacesyncproto.ObjectSyncMessage).MarshalVT()
	if err != nil {
		return err
	}
	w.seq++
	w.Pool = append(w.Pool, &Msg{From: r.Idx, ObjectId: hu.ObjectId(), Payload: b, RecIds: recIds, Seq: w.seq})
	return nil
}

func (c *remoteClient) QueueRequest(ctx context.Context, req syncdeps.Request) error { return nil }
func (c *remoteClient) SendTreeRequest(ctx context.Context, req syncdeps.Request, collector syncdeps.ResponseCollector) error {
	return errors.New("delsim: remote members do not fetch")
}

// PutObject stores the root of o on this member.
func (r *Remote) PutObject(o *Obj) error {
	if _, ok := r.Trees[o.Id]; ok {
		return nil
	}
	mute := r.Mute
	r.Mute = true
	defer func() { r.Mute = mute }()
	t, err := synctree.PutSyncTree(context.Background(), treestorage.TreeStorageCreatePayload{RootRawChange: cloneRaw(o.Root), Heads: []string{o.Id}}, r.deps())
	if err != nil {
		return err
	}
	r.Trees[o.Id] = t
	return nil
}

// Edit adds a change to object id on this member; the broadcast goes in flight to the local node.
func (r *Remote) Edit(id string) error {
	t, ok := r.Trees[id]
	if !ok {
		return fmt.Errorf("remote %d has no tree %s", r.Idx, id)
	}
	ts := r.w.tick()
	t.Lock()
	defer t.Unlock()
	_, err := t.AddContent(context.Background(), objecttree.SignableChangeContent{
		Data: []byte(fmt.Sprintf("r%d-%d", r.Idx, ts)), Key: r.Keys.SignKey, Timestamp: ts, DataType: "t",
	})
	return err
}

// View is the set of ids this member's copy of the settings log deletes (model side:
// union over the records it holds, decoded by the harness).
func (r *Remote) View() map[string]struct{} {
	v := map[string]struct{}{}
	for id := range r.Has {
		for _, d := range r.w.RecById[id].Ids {
			v[d] = struct{}{}
		}
	}
	return v
}

// Delete makes this member record the deletion of ids on top of ITS heads of the settings
// tree, the way settingsObject.DeleteObject does (real change factory, real AddContent).
func (r *Remote) Delete(ids []string, snapshot bool) (*Rec, error) {
	data, err := settingsstate.NewChangeFactory().CreateObjectDeleteChange(ids, &settingsstate.State{DeletedIds: r.View()}, snapshot)
	if err != nil {
		return nil, err
	}
	before := len(r.w.Recs)
	r.Settings.Lock()
	_, err = r.Settings.AddContent(context.Background(), objecttree.SignableChangeContent{
		Data: data, Key: r.Keys.SignKey, IsSnapshot: snapshot, Timestamp: r.w.tick(),
	})
	r.Settings.Unlock()
	if err != nil {
		return nil, err
	}
	if len(r.w.Recs) != before+1 {
		return nil, fmt.Errorf("delsim: remote delete produced %d records", len(r.w.Recs)-before)
	}
	return r.w.Recs[before], nil
}

// CatchUp gives this member every settings record produced so far (by anyone) and the
// object changes the local node produced, so that what it produces next is causally after them.
func (r *Remote) CatchUp() error {
	mute := r.Mute
	r.Mute = true
	defer func() { r.Mute = mute }()
	for _, rec := range r.w.Recs {
		if r.Has[rec.Id] {
			continue
		}
		r.Settings.Lock()
		_, err := r.Settings.AddRawChanges(context.Background(), objecttree.RawChangesPayload{NewHeads: []string{rec.Id}, RawChanges: []*treechangeproto.RawTreeChangeWithId{cloneRaw(rec.Raw)}})
		r.Settings.Unlock()
		if err != nil {
			return fmt.Errorf("remote %d catch-up with %s: %w", r.Idx, rec.Id, err)
		}
		r.Has[rec.Id] = true
	}
	return nil
}

// addObjectChanges feeds changes the local node produced for an object tree.
func (r *Remote) addObjectChanges(id string, chs []*treechangeproto.RawTreeChangeWithId, heads []string) {
	t, ok := r.Trees[id]
	if !ok {
		return
	}
	mute := r.Mute
	r.Mute = true
	defer func() { r.Mute = mute }()
	var cp []*treechangeproto.RawTreeChangeWithId
	for _, c := range chs {
		cp = append(cp, cloneRaw(c))
	}
	t.Lock()
	_, err := t.AddRawChanges(context.Background(), objecttree.RawChangesPayload{NewHeads: heads, RawChanges: cp})
	t.Unlock()
	if err != nil {
		r.w.Logf("remote %d: local changes of %s not applied: %v", r.Idx, short(id), err)
	}
}

// serve runs the responder side of a request for object id and returns the marshalled stream.
func (r *Remote) serve(from string, msg *spacesyncproto.ObjectSyncMessage) (stream [][]byte, err error) {
	var h syncdeps.ObjectSyncHandler
	if msg.ObjectId == r.w.SettingsId {
		h = r.Settings
	} else if t, ok := r.Trees[msg.ObjectId]; ok {
		h = t
	} else {
		return nil, treechangeproto.ErrGetTree
	}
	rq := objectmessages.NewByteRequest(from, msg.SpaceId, msg.ObjectId, msg.Payload)
	ctx := peer.CtxWithPeerId(context.Background(), from)
	send := func(resp proto.Message) error {
		osm, ok := resp.(*spacesyncproto.ObjectSyncMessage)
		if !ok {
			return fmt.Errorf("unexpected response type %T", resp)
		}
		b, err := osm.MarshalVT()
		if err != nil {
			return err
		}
		stream = append(stream, b)
		return nil
	}
	_, err = h.HandleStreamRequest(ctx, rq, noopUpdater{}, send)
	return stream, err
}

type noopUpdater struct{}

func (noopUpdater) UpdateQueueSize(size uint64, msgType int, add bool) {}

type protoSettable interface {
	SetProtoMessage(protobuf.Message) error
}

// ---- the local node ------------------------------------------------------------------------

// Local is one process lifetime of the node under test (Start .. Stop).
type Local struct {
	w     *World
	Async bool // informational: the case pumps the index FIFO itself instead of draining it after every operation

	DB       anystore.DB
	Space    spacestorage.SpaceStorage
	Acl      list.AclList
	App      *app.App
	DelState deletionstate.ObjectDeletionState
	DelMgr   deletionmanager.DeletionManager
	Deleter  deletionmanager.Deleter
	order    *orderedState
	Diff     *headsync.DiffManager
	Settings settings.SettingsObject
	TM       *TreeManager
	Trees    map[string]synctree.SyncTree // the host application's cache of opened trees
	IndexQ   []headstorage.HeadsEntry
	// DropRequests: full-sync requests a head-update handler returns are lost (the update's
	// changes stay unattached in memory)
	DropRequests bool
	Requests     int // SendTreeRequest calls issued by this node (all lifetimes)
	Fetched      int // of which answered with a tree
	Running      bool
	Lifetimes    int

	// LastState is the state pointer the settings object last handed to the deletion manager.
	LastState   *settingsstate.State
	StateCalls  int
	LocalChange func(id string) // called for every settings change the local node produced
}

type accountStub struct{ keys *accountdata.AccountKeys }

func (a accountStub) Init(*app.App) error               { return nil }
func (a accountStub) Name() string                      { return "common.accountservice" }
func (a accountStub) Account() *accountdata.AccountKeys { return a.keys }

// syncAclStub satisfies syncacl.SyncAcl for NewDiffManager, which only logs Id() and Head().
type syncAclStub struct {
	list.AclList
	syncdeps.ObjectSyncHandler
}

func (s syncAclStub) Init(*app.App) error                           { return nil }
func (s syncAclStub) Name() string                                  { return syncacl.CName }
func (s syncAclStub) Run(context.Context) error                     { return nil }
func (s syncAclStub) Close(context.Context) error                   { return nil }
func (s syncAclStub) SyncWithPeer(context.Context, peer.Peer) error { return nil }
func (s syncAclStub) SetAclUpdater(headupdater.AclUpdater)          {}

// recordingDelMgr forwards to the real deletion manager and remembers the state it was given.
type recordingDelMgr struct {
	deletionmanager.DeletionManager
	l *Local
}

func (m recordingDelMgr) UpdateState(ctx context.Context, st *settingsstate.State) error {
	m.l.LastState = st
	m.l.StateCalls++
	return m.DeletionManager.UpdateState(ctx, st)
}

// orderedState makes the worker's iteration order part of the generated schedule:
// GetQueued of the real component returns map order.
type orderedState struct {
	deletionstate.ObjectDeletionState
	Perm int
}

func (o *orderedState) GetQueued() []string {
	ids := o.ObjectDeletionState.GetQueued()
	sort.Strings(ids)
	n := len(ids)
	if n < 2 {
		return ids
	}
	if o.Perm&1 == 1 {
		for i, j := 0, n-1; i < j; i, j = i+1, j-1 {
			ids[i], ids[j] = ids[j], ids[i]
		}
	}
	k := (o.Perm >> 1) % n
	return append(append([]string(nil), ids[k:]...), ids[:k]...)
}

type indexObserver struct{ l *Local }

// OnUpdate only enqueues, as headsync's diffSyncer does: the head storage calls its observers
// inside the write transaction of the update, and DiffManager.UpdateHeads writes the space hash
// (a second write transaction), so it can never run synchronously from here.
func (o indexObserver) OnUpdate(e headstorage.HeadsEntry) {
	e.Heads = append([]string(nil), e.Heads...)
	o.l.IndexQ = append(o.l.IndexQ, e)
}

// Pump lets the index goroutine process up to n queued head-storage updates (all if n<0).
func (l *Local) Pump(n int) int {
	done := 0
	if l.Diff == nil {
		return 0
	}
	for len(l.IndexQ) > 0 && (n < 0 || done < n) {
		e := l.IndexQ[0]
		l.IndexQ = l.IndexQ[1:]
		l.Diff.UpdateHeads(e)
		done++
	}
	return done
}

// Start opens the database and brings the components up in the order commonspace registers
// them: space storage, ACL, deletionstate (Init, Run), deletion manager (Init only), settings
// object (Init), head index (observer, FillDiff). afterDelState, if set, runs right after
// deletionstate.Run — the point where production starts the deletion loop.
func (l *Local) Start(create bool, afterDelState func() error) (err error) {
	ctx := context.Background()
	w := l.w
	l.Trees = map[string]synctree.SyncTree{}
	l.IndexQ = nil
	l.LastState = nil
	l.DB, err = w.open("local.db")
	if err != nil {
		return err
	}
	if create {
		l.Space, err = spacestorage.Create(ctx, l.DB, w.createPayload())
	} else {
		l.Space, err = spacestorage.New(ctx, w.SpaceId, l.DB)
	}
	if err != nil {
		return err
	}
	aclSt, err := l.Space.AclStorage()
	if err != nil {
		return err
	}
	l.Acl, err = list.BuildAclListWithIdentity(w.Keys[0], aclSt, recordverifier.NewValidateFull())
	if err != nil {
		return err
	}
	if create {
		for _, rec := range w.AclRecords[1:] {
			if err := l.Acl.AddRawRecord(aclgen.CloneRec(rec)); err != nil {
				return err
			}
		}
	}
	l.App = new(app.App)
	l.DelState = deletionstate.New()
	l.DelMgr = deletionmanager.New()
	l.App.Register(&spacestate.SpaceState{SpaceId: w.SpaceId, SpaceIsClosed: &atomic.Bool{}, TreesUsed: &atomic.Int32{}, TreeBuilderFunc: objecttree.BuildObjectTree}).
		Register(l.Space).
		Register(l.TM).
		Register(l.DelState).
		Register(l.DelMgr)
	if err = l.DelState.Init(l.App); err != nil {
		return err
	}
	runnable, ok := l.DelState.(app.ComponentRunnable)
	if !ok {
		return errors.New("delsim: deletionstate is not runnable")
	}
	if err = runnable.Run(ctx); err != nil {
		return err
	}
	if err = l.DelMgr.Init(l.App); err != nil {
		return err
	}
	l.order = &orderedState{ObjectDeletionState: l.DelState}
	l.Deleter = deletionmanager.NewDeleterVerif(l.Space, l.order, l.TM)
	l.Running = true
	l.Lifetimes++
	if afterDelState != nil {
		if err = afterDelState(); err != nil {
			return err
		}
	}
	l.Settings = settings.NewSettingsObject(settings.Deps{
		BuildFunc: func(ctx context.Context, id string, listener updatelistener.UpdateListener) (synctree.SyncTree, error) {
			d := l.deps()
			d.Listener = listener
			return synctree.BuildSyncTreeOrGetRemote(ctx, id, d)
		},
		Account:     accountStub{w.Keys[0]},
		TreeManager: l.TM,
		Store:       l.Space,
		DelManager:  recordingDelMgr{DeletionManager: l.DelMgr, l: l},
	}, w.SpaceId)
	if err = l.Settings.Init(ctx); err != nil {
		return fmt.Errorf("settings init: %w", err)
	}
	// headsync.Run: the syncer subscribes first, then the diff is filled
	l.Diff = headsync.NewDiffManager(ldiff.New(32, 256), l.Space, syncAclStub{AclList: l.Acl}, logger.NewNamed("verif.c15"), ctx, l.DelState)
	l.Space.HeadStorage().AddObserver(indexObserver{l})
	if err = l.Diff.FillDiff(ctx); err != nil {
		return fmt.Errorf("fill diff: %w", err)
	}
	return nil
}

// Stop closes every component and the database (a process exit; queued index updates are lost).
func (l *Local) Stop() {
	if !l.Running && l.DB == nil {
		return
	}
	ctx := context.Background()
	for _, t := range l.Trees {
		t.Close()
	}
	l.Trees = nil
	if l.Settings != nil {
		l.Settings.Close()
		l.Settings = nil
	}
	if l.DelMgr != nil {
		l.DelMgr.Close(ctx)
	}
	if l.DB != nil {
		l.DB.Close()
		l.DB = nil
	}
	l.IndexQ = nil
	l.Diff = nil
	l.Running = false
}

func (l *Local) deps() synctree.BuildDeps {
	return synctree.BuildDeps{
		SpaceId:         l.w.SpaceId,
		SyncClient:      &localClient{RequestFactory: synctree.NewRequestFactory(l.w.SpaceId), l: l},
		AclList:         l.Acl,
		SpaceStorage:    l.Space,
		OnClose:         func(string) {},
		SyncStatus:      syncstatus.NewNoOpSyncStatus(),
		BuildObjectTree: objecttree.BuildObjectTree,
	}
}

type localClient struct {
	synctree.RequestFactory
	l *Local
}

func (c *localClient) Broadcast(ctx context.Context, hu *objectmessages.HeadUpdate) error {
	w := c.l.w
	chs, err := changesOf(hu)
	if err != nil {
		return err
	}
	if hu.ObjectId() == w.SettingsId {
		for _, ch := range chs {
			known := w.RecById[ch.Id] != nil
			rec, err := w.register(ch, 0)
			if err != nil {
				return err
			}
			if !known && c.l.LocalChange != nil {
				c.l.LocalChange(rec.Id)
			}
		}
		return nil
	}
	// member 1 mirrors what the local node produces for object trees
	if len(chs) > 0 {
		w.Remotes[1].addObjectChanges(hu.ObjectId(), chs, hu.Update.Heads())
	}
	return nil
}

func (c *localClient) QueueRequest(ctx context.Context, req syncdeps.Request) error { return nil }

// SendTreeRequest is the synchronous fetch of a tree this node does not have: counted, then
// answered by the addressed remote member with the stream its real handler produces.
func (c *localClient) SendTreeRequest(ctx context.Context, req syncdeps.Request, collector syncdeps.ResponseCollector) error {
	l := c.l
	l.Requests++
	or, ok := req.(*objectmessages.Request)
	if !ok {
		return fmt.Errorf("unexpected request type %T", req)
	}
	pm, err := or.Proto()
	if err != nil {
		return err
	}
	osm := pm.(*spacesyncproto.ObjectSyncMessage)
	to := peerIdx(req.PeerId())
	if to < 1 || to >= len(l.w.Remotes) {
		return fmt.Errorf("request addressed to unknown peer %q", req.PeerId())
	}
	l.w.Logf("  local SENDS tree request for %s to %s", short(req.ObjectId()), req.PeerId())
	stream, err := l.w.Remotes[to].serve(peerName(0), osm)
	if err != nil {
		return err
	}
	if len(stream) == 0 {
		return errors.New("empty response stream")
	}
	for _, b := range stream {
		resp := collector.NewResponse()
		msg := &spacesyncproto.ObjectSyncMessage{}
		if err := msg.UnmarshalVT(b); err != nil {
			return err
		}
		if err := resp.(protoSettable).SetProtoMessage(msg); err != nil {
			return err
		}
		if err := collector.CollectResponse(ctx, req.PeerId(), req.ObjectId(), resp); err != nil {
			return err
		}
	}
	l.Fetched++
	return nil
}

// ---- the host application's tree manager -----------------------------------------------------

// TreeManager is what the client application registers as treemanager.TreeManager: a cache
// of opened trees over BuildSyncTreeOrGetRemote / PutSyncTree; DeleteTree = tree.Delete() and
// eviction; MarkTreeDeleted only takes note (the deletion state writes the status itself).
type TreeManager struct {
	l *Local
	// OnCallout is invoked first thing when the deletion worker calls DeleteTree / MarkTreeDeleted,
	// AfterCallout right before a successful call returns to the worker.
	OnCallout    func(call, id string)
	AfterCallout func(call, id string)
	// CrashAfterDelete: DeleteTree(id) deletes the tree's storage, then the process "dies":
	// the worker's context is cancelled and the call reports an error, so the worker neither
	// writes the Deleted status nor visits another id.
	CrashAfterDelete string
	Crashed          bool
	cancelWorker     context.CancelFunc
	Marked           []string
	Deleted          []string
	Failed           map[string]error // DeleteTree / MarkTreeDeleted errors of the current worker run
}

func (t *TreeManager) Init(*app.App) error         { return nil }
func (t *TreeManager) Name() string                { return treemanager.CName }
func (t *TreeManager) Run(context.Context) error   { return nil }
func (t *TreeManager) Close(context.Context) error { return nil }

func (t *TreeManager) GetTree(ctx context.Context, spaceId, treeId string) (objecttree.ObjectTree, error) {
	if tr, ok := t.l.Trees[treeId]; ok {
		return tr, nil
	}
	tr, err := synctree.BuildSyncTreeOrGetRemote(ctx, treeId, t.l.deps())
	if err != nil {
		return nil, err
	}
	t.l.Trees[treeId] = tr
	return tr, nil
}

func (t *TreeManager) ValidateAndPutTree(ctx context.Context, spaceId string, payload treestorage.TreeStorageCreatePayload) error {
	_, err := t.Put(ctx, payload.RootRawChange)
	return err
}

// Put is the application creating / importing a tree from its root.
func (t *TreeManager) Put(ctx context.Context, root *treechangeproto.RawTreeChangeWithId) (synctree.SyncTree, error) {
	tr, err := synctree.PutSyncTree(ctx, treestorage.TreeStorageCreatePayload{RootRawChange: cloneRaw(root), Heads: []string{root.Id}}, t.l.deps())
	if err != nil {
		return nil, err
	}
	t.l.Trees[root.Id] = tr
	return tr, nil
}

func (t *TreeManager) MarkTreeDeleted(ctx context.Context, spaceId, treeId string) error {
	if t.OnCallout != nil {
		t.OnCallout("MarkTreeDeleted", treeId)
	}
	t.Marked = append(t.Marked, treeId)
	if t.AfterCallout != nil {
		t.AfterCallout("MarkTreeDeleted", treeId)
	}
	return nil
}

// ErrCrashed is what a DeleteTree interrupted by the emulated process death reports.
var ErrCrashed = errors.New("delsim: process died")

// Shutdown cancels the context of the running worker (deletion manager Close during a run).
func (t *TreeManager) Shutdown() {
	if t.cancelWorker != nil {
		t.cancelWorker()
		t.Crashed = true
	}
}

func (t *TreeManager) DeleteTree(ctx context.Context, spaceId, treeId string) (err error) {
	if t.OnCallout != nil {
		t.OnCallout("DeleteTree", treeId)
	}
	defer func() {
		if err != nil && t.Failed != nil {
			t.Failed[treeId] = err
		}
	}()
	tr, err := t.GetTree(ctx, spaceId, treeId)
	if err != nil {
		return err
	}
	if err = tr.Delete(); err != nil {
		return err
	}
	t.Deleted = append(t.Deleted, treeId)
	delete(t.l.Trees, treeId)
	tr.Close()
	if t.CrashAfterDelete == treeId {
		t.Shutdown()
		return ErrCrashed
	}
	if t.AfterCallout != nil {
		t.AfterCallout("DeleteTree", treeId)
	}
	return nil
}

// ---- local operations ------------------------------------------------------------------------

// RunWorker is one synchronous run of the real deletion worker; perm fixes the order in
// which it visits the queued ids.
func (l *Local) RunWorker(perm int) {
	l.order.Perm = perm
	l.TM.Failed = map[string]error{}
	l.TM.Crashed = false
	ctx, cancel := context.WithCancel(context.Background())
	l.TM.cancelWorker = cancel
	l.Deleter.Delete(ctx)
	cancel()
	l.TM.cancelWorker = nil
	l.TM.CrashAfterDelete = ""
}

// Restart closes everything and starts a new process lifetime on the same database.
func (l *Local) Restart(afterDelState func() error) error {
	l.Stop()
	return l.Start(false, afterDelState)
}

// EditLocal adds a local change to an object tree through the application's cache.
func (l *Local) EditLocal(id string) error {
	tr, err := l.TM.GetTree(context.Background(), l.w.SpaceId, id)
	if err != nil {
		return err
	}
	ts := l.w.tick()
	tr.Lock()
	defer tr.Unlock()
	_, err = tr.AddContent(context.Background(), objecttree.SignableChangeContent{
		Data: []byte(fmt.Sprintf("l-%d", ts)), Key: l.w.Keys[0].SignKey, Timestamp: ts, DataType: "t",
	})
	return err
}

// Fetch is the application asking for a tree with a peer to fall back to.
func (l *Local) Fetch(id string, from int) (synctree.SyncTree, error) {
	ctx := peer.CtxWithPeerId(context.Background(), peerName(from))
	tr, err := synctree.BuildSyncTreeOrGetRemote(ctx, id, l.deps())
	if err != nil {
		return nil, err
	}
	if old, ok := l.Trees[id]; ok && old != tr {
		tr.Close()
		return old, nil
	}
	l.Trees[id] = tr
	return tr, nil
}

// DeliverResult says what the dispatch of a head update did.
type DeliverResult struct {
	NoObject   bool  // the object could not be obtained locally -> new-tree request path
	FetchErr   error // outcome of that path
	HandlerErr error
	Requested  bool // the handler asked for a full sync, which was served
}

// Deliver dispatches a head update the way commonspace/sync/objectsync does: settings id ->
// settings object; otherwise TreeManager.GetTree without a peer in the context; on failure a
// new-tree request whose application is GetTree with the sender as the peer to fetch from.
func (l *Local) Deliver(m *Msg) (res DeliverResult, err error) {
	w := l.w
	msg := &spacesyncproto.ObjectSyncMessage{}
	if err = msg.UnmarshalVT(m.Payload); err != nil {
		return
	}
	ctx := peer.CtxWithPeerId(context.Background(), peerName(m.From))
	var h syncdeps.ObjectSyncHandler
	if m.ObjectId == w.SettingsId {
		h = l.Settings
	} else {
		tr, gerr := l.TM.GetTree(context.Background(), w.SpaceId, m.ObjectId)
		if gerr != nil {
			res.NoObject = true
			_, res.FetchErr = l.TM.GetTree(ctx, w.SpaceId, m.ObjectId)
			return res, nil
		}
		h = tr.(synctree.SyncTree)
	}
	hu := &objectmessages.HeadUpdate{}
	if err = hu.SetProtoMessage(msg); err != nil {
		return
	}
	req, herr := h.HandleHeadUpdate(ctx, syncstatus.NewNoOpSyncStatus(), hu)
	res.HandlerErr = herr
	if herr != nil || req == nil {
		return res, nil
	}
	// requestmanager: send the request, feed the stream to the object's collector
	res.Requested = true
	if l.DropRequests {
		w.Logf("  the full-sync request to member %d is lost", m.From)
		return res, nil
	}
	or, ok := req.(*objectmessages.Request)
	if !ok {
		return res, fmt.Errorf("unexpected request type %T", req)
	}
	pm, err := or.Proto()
	if err != nil {
		return res, err
	}
	stream, serr := w.Remotes[m.From].serve(peerName(0), pm.(*spacesyncproto.ObjectSyncMessage))
	if serr != nil {
		w.Logf("  full-sync request to member %d failed: %v", m.From, serr)
	}
	collector := h.ResponseCollector()
	for _, b := range stream {
		resp := collector.NewResponse()
		rm := &spacesyncproto.ObjectSyncMessage{}
		if err = rm.UnmarshalVT(b); err != nil {
			return res, err
		}
		if err = resp.(protoSettable).SetProtoMessage(rm); err != nil {
			return res, err
		}
		if cerr := collector.CollectResponse(ctx, peerName(m.From), m.ObjectId, resp); cerr != nil {
			w.Logf("  collector error: %v", cerr)
			res.HandlerErr = cerr
			break
		}
	}
	return res, nil
}

// ---- observers (storage level, no deletion / settings logic involved) -----------------------

// Entry returns the head-storage entry of id; ok=false when there is none.
func (l *Local) Entry(id string) (headstorage.HeadsEntry, bool, error) {
	e, err := l.Space.HeadStorage().GetEntry(context.Background(), id)
	if err != nil {
		if errors.Is(err, anystore.ErrDocNotFound) {
			return e, false, nil
		}
		return e, false, err
	}
	return e, true, nil
}

// StoredChanges counts the documents of the changes collection that belong to tree id.
func (l *Local) StoredChanges(id string) (int, error) {
	ctx := context.Background()
	coll, err := l.DB.Collection(ctx, objecttree.CollName)
	if err != nil {
		return 0, err
	}
	return coll.Find(query.Key{Path: []string{objecttree.TreeKey}, Filter: query.NewComp(query.CompOpEq, id)}).Count(ctx)
}

// SettingsLog returns the settings records stored on the local database, decoded by the harness.
func (l *Local) SettingsLog() (map[string]*Rec, error) {
	ctx := context.Background()
	st, err := l.Space.TreeStorage(ctx, l.w.SettingsId)
	if err != nil {
		return nil, err
	}
	out := map[string]*Rec{}
	err = st.GetAfterOrder(ctx, "", func(ctx context.Context, c objecttree.StorageChange) (bool, error) {
		if c.Id == l.w.SettingsId {
			out[c.Id] = &Rec{Id: c.Id, Author: -1, Seq: -1} // the root change
			return true, nil
		}
		r, err := DecodeRec(&treechangeproto.RawTreeChangeWithId{RawChange: c.RawChange, Id: c.Id})
		if err != nil {
			return false, err
		}
		out[r.Id] = r
		return true, nil
	})
	return out, err
}

// ScratchDerivation rebuilds the deleted-id set from scratch with the real state builder
// over a history tree of the stored settings log.
func (l *Local) ScratchDerivation() (map[string]struct{}, error) {
	ctx := context.Background()
	st, err := l.Space.TreeStorage(ctx, l.w.SettingsId)
	if err != nil {
		return nil, err
	}
	ht, err := objecttree.BuildHistoryTree(objecttree.HistoryTreeParams{Storage: st, AclList: l.Acl})
	if err != nil {
		return nil, err
	}
	state, err := settingsstate.NewStateBuilder().Build(ht, nil)
	if err != nil {
		return nil, err
	}
	return state.DeletedIds, nil
}

// IndexIds is the advertised head index.
func (l *Local) IndexIds() map[string]bool {
	out := map[string]bool{}
	for _, id := range l.Diff.AllIds() {
		out[id] = true
	}
	return out
}

func short(id string) string {
	if len(id) > 6 {
		return id[len(id)-6:]
	}
	return id
}

// Short renders an id compactly.
func Short(id string) string { return short(id) }

// ShortAll renders ids compactly, sorted.
func ShortAll(ids []string) string {
	out := make([]string, len(ids))
	for i, id := range ids {
		out[i] = short(id)
	}
	sort.Strings(out)
	return strings.Join(out, ",")
}
