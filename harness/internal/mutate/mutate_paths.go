package mutate

// This file (added for C11): schema-free discovery of nested messages. A path is a list
// of top-level field *occurrence indexes* (not field numbers), so that every element of a
// repeated field can be addressed. A length-delimited value is considered a nested
// message when it parses as a non-empty, well-formed field sequence.

// looksLikeMessage reports whether b parses as a protobuf field sequence with at least one
// field and plausible field numbers. Short ASCII strings often parse by accident; the
// heuristic is only used to choose *where* to mutate, never to judge a result.
func looksLikeMessage(b []byte) bool {
	if len(b) < 2 {
		return false
	}
	fs, ok := Parse(b)
	if !ok || len(fs) == 0 {
		return false
	}
	for _, f := range fs {
		if f.Num > 64 {
			return false
		}
	}
	return true
}

// IdxPaths lists the index paths of every nested message of b down to maxDepth (the empty
// path, i.e. b itself, comes first if b parses). At most limit paths are returned.
func IdxPaths(b []byte, maxDepth, limit int) [][]int {
	var out [][]int
	var walk func(msg []byte, prefix []int, depth int)
	walk = func(msg []byte, prefix []int, depth int) {
		if len(out) >= limit {
			return
		}
		fs, ok := Parse(msg)
		if !ok || len(fs) == 0 {
			return
		}
		out = append(out, append([]int(nil), prefix...))
		if depth >= maxDepth {
			return
		}
		for i, f := range fs {
			if f.Wire != WireBytes {
				continue
			}
			v := msg[f.ValStart:f.End]
			if looksLikeMessage(v) {
				walk(v, append(append([]int(nil), prefix...), i), depth+1)
			}
		}
	}
	walk(b, nil, 0)
	return out
}

// GetAtIdx returns the nested value addressed by an index path.
func GetAtIdx(b []byte, path []int) ([]byte, bool) {
	for _, idx := range path {
		fs, ok := Parse(b)
		if !ok || idx < 0 || idx >= len(fs) || fs[idx].Wire != WireBytes {
			return nil, false
		}
		b = b[fs[idx].ValStart:fs[idx].End]
	}
	return b, true
}

// EditAtIdx applies edit to the nested value addressed by an index path and re-encodes all
// enclosing length prefixes.
func EditAtIdx(b []byte, path []int, edit func([]byte) ([]byte, bool)) ([]byte, bool) {
	if len(path) == 0 {
		return edit(b)
	}
	fs, ok := Parse(b)
	if !ok || path[0] < 0 || path[0] >= len(fs) || fs[path[0]].Wire != WireBytes {
		return nil, false
	}
	f := fs[path[0]]
	inner, ok := EditAtIdx(b[f.ValStart:f.End], path[1:], edit)
	if !ok {
		return nil, false
	}
	return ReplaceValue(b, f, inner), true
}

// FieldIdx returns the occurrence index of the n-th (0-based) occurrence of field num with
// the given wire type, or -1.
func FieldIdx(b []byte, num, wire, n int) int {
	fs, ok := Parse(b)
	if !ok {
		return -1
	}
	for i, f := range fs {
		if f.Num == num && f.Wire == wire {
			if n == 0 {
				return i
			}
			n--
		}
	}
	return -1
}

// CountField counts the occurrences of field num / wire.
func CountField(b []byte, num, wire int) int {
	fs, ok := Parse(b)
	if !ok {
		return 0
	}
	n := 0
	for _, f := range fs {
		if f.Num == num && f.Wire == wire {
			n++
		}
	}
	return n
}

// SetUvarint overwrites a protobuf varint at the start of b[pos:] with v (used for
// length-prefix edits on framed, non-protobuf formats such as snappy blocks).
func SetUvarint(b []byte, pos int, v uint64) ([]byte, bool) {
	if pos < 0 || pos >= len(b) {
		return nil, false
	}
	_, n := uvarint(b[pos:])
	if n < 0 {
		return nil, false
	}
	return splice(b, pos, pos+n, AppendUvarint(nil, v)), true
}
