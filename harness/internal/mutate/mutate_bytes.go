// Package mutate holds structure-aware mutators (engine F of DESIGN.md): byte-level edits
// and protobuf wire-level edits applied to *valid* messages produced by the real
// constructors. Every function returns a fresh slice and never modifies its input.
//
// This file: byte / string level edits.
package mutate

// BitPatterns are the XOR masks used by exhaustive single-byte sweeps: lowest bit, highest
// bit, all bits.
var BitPatterns = []byte{0x01, 0x80, 0xFF}

func clone(b []byte) []byte { return append([]byte(nil), b...) }

// Mod maps an arbitrary integer onto [0,n) (n>0).
func Mod(i, n int) int {
	if n <= 0 {
		return 0
	}
	return ((i % n) + n) % n
}

// XorByte returns b with byte pos (mod len) XORed with mask. ok=false if b is empty or
// mask is 0 (nothing would change).
func XorByte(b []byte, pos int, mask byte) (out []byte, ok bool) {
	if len(b) == 0 || mask == 0 {
		return nil, false
	}
	out = clone(b)
	out[Mod(pos, len(b))] ^= mask
	return out, true
}

// Truncate keeps the first n (mod len) bytes; the result is always shorter than b.
func Truncate(b []byte, n int) (out []byte, ok bool) {
	if len(b) == 0 {
		return nil, false
	}
	return clone(b[:Mod(n, len(b))]), true
}

// DeleteByte removes byte pos (mod len).
func DeleteByte(b []byte, pos int) (out []byte, ok bool) {
	if len(b) == 0 {
		return nil, false
	}
	p := Mod(pos, len(b))
	return append(clone(b[:p]), b[p+1:]...), true
}

// InsertByte inserts v before position pos (mod len+1).
func InsertByte(b []byte, pos int, v byte) []byte {
	p := Mod(pos, len(b)+1)
	out := append(clone(b[:p]), v)
	return append(out, b[p:]...)
}

// Extend appends extra bytes.
func Extend(b []byte, extra ...byte) []byte { return append(clone(b), extra...) }

// StringEdits enumerates single-character edits of an identifier string at position pos
// (mod len): three substitutions that keep the alphabet plausible (next character, case
// flip, a digit/letter swap), deletion of the character and insertion of a character.
// Edits that leave the string unchanged are not returned.
func StringEdits(s string, pos int) []string {
	if len(s) == 0 {
		return []string{"a"}
	}
	p := Mod(pos, len(s))
	c := s[p]
	var out []string
	add := func(v string) {
		if v != s {
			out = append(out, v)
		}
	}
	sub := func(n byte) { add(s[:p] + string([]byte{n}) + s[p+1:]) }
	// next character of the same class
	switch {
	case c >= 'a' && c < 'z', c >= 'A' && c < 'Z', c >= '0' && c < '9':
		sub(c + 1)
	default:
		sub('a')
	}
	// case flip / class change
	switch {
	case c >= 'a' && c <= 'z':
		sub(c - 'a' + 'A')
	case c >= 'A' && c <= 'Z':
		sub(c - 'A' + 'a')
	case c >= '0' && c <= '9':
		sub('a' + (c - '0'))
	default:
		sub('0')
	}
	sub(c ^ 0x01)
	add(s[:p] + s[p+1:])
	add(s[:p] + string([]byte{c}) + s[p:])
	return out
}
