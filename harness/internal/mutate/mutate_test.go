package mutate

import "testing"

func TestOpsChangeBytesAndNestedRewrap(t *testing.T) {
	inner := append(EncodeBytesField(1, []byte("identity")), EncodeVarintField(4, 300)...)
	outer := append(EncodeBytesField(1, inner), EncodeBytesField(2, []byte("signature"))...)
	fs, ok := Parse(outer)
	if !ok || len(fs) != 2 || fs[0].Num != 1 || fs[1].Num != 2 {
		t.Fatalf("parse: %v %v", fs, ok)
	}
	ops := Ops(outer)
	if len(ops) == 0 {
		t.Fatal("no ops")
	}
	for _, op := range ops {
		out, ok := Apply(outer, op)
		if ok && string(out) == string(outer) {
			t.Fatalf("op %+v left the bytes unchanged", op)
		}
	}
	got, ok := EditNested(outer, []int{1}, func(b []byte) ([]byte, bool) {
		return SetField(b, 4, WireVarint, AppendUvarint(nil, 301)), true
	})
	if !ok {
		t.Fatal("EditNested failed")
	}
	in2, _ := Last(got, 1, WireBytes)
	v, _ := Last(in2, 4, WireVarint)
	if len(v) != 2 || v[0] != 0xad || v[1] != 0x02 {
		t.Fatalf("nested varint = %x", v)
	}
	if sig, _ := Last(got, 2, WireBytes); string(sig) != "signature" {
		t.Fatalf("signature field damaged: %q", sig)
	}
	if _, ok := Parse([]byte{0x0a, 0x05, 1}); ok {
		t.Fatal("truncated field parsed")
	}
	// unknown group field 5 {varint field 1 = 7, nested group 6 {}} followed by field 2
	grp := []byte{0x2b, 0x08, 0x07, 0x33, 0x34, 0x2c, 0x12, 0x01, 'x'}
	fs, ok = Parse(grp)
	if !ok || len(fs) != 2 || fs[0].Wire != WireStartGroup || fs[0].End != 6 || fs[1].Num != 2 {
		t.Fatalf("group parse: %+v %v", fs, ok)
	}
	if _, ok := Parse([]byte{0x2c}); ok {
		t.Fatal("top-level end-group parsed")
	}
	if _, ok := Parse([]byte{0x2b, 0x08, 0x07}); ok {
		t.Fatal("unterminated group parsed")
	}
}
