package mutate

// This file: protobuf wire-level edits. A message is parsed into its top-level fields
// without any schema; edits delete / duplicate / reorder a field, change a value, change
// only a length prefix, change a wire type, append an unknown field. EditNested applies an
// edit to a nested length-delimited field and re-wraps it with correct length prefixes so
// that the mutation reaches the inner (usually signed) message.

import (
	"encoding/binary"
	"fmt"
)

// Wire types.
const (
	WireVarint  = 0
	WireFixed64 = 1
	WireBytes   = 2
	WireFixed32 = 5
)

// Field is one top-level field occurrence of a serialised message.
type Field struct {
	Num      int
	Wire     int
	Start    int // offset of the tag
	ValStart int // offset of the value (for WireBytes: after the length prefix)
	End      int // offset after the value
}

// uvarint reads a varint the way the generated (vtproto) decoders do: at most 10 bytes,
// surplus high bits of the 10th byte are dropped rather than rejected.
func uvarint(b []byte) (uint64, int) {
	var v uint64
	for i := 0; i < len(b) && i < 10; i++ {
		v |= uint64(b[i]&0x7f) << (7 * uint(i))
		if b[i] < 0x80 {
			return v, i + 1
		}
	}
	return 0, -1
}

// AppendUvarint appends the minimal varint encoding of v.
func AppendUvarint(b []byte, v uint64) []byte { return binary.AppendUvarint(b, v) }

// Wire types of groups (deprecated in protobuf, but decoders still skip them).
const (
	WireStartGroup = 3
	WireEndGroup   = 4
)

// skipValue returns the offset after the value of a field with the given wire type that
// starts at b[i:], mirroring protohelpers.Skip (groups are skipped by depth counting, the
// field numbers of start/end tags are not matched). -1 = malformed.
func skipValue(b []byte, i, wire int) int {
	switch wire {
	case WireVarint:
		_, m := uvarint(b[i:])
		if m < 0 {
			return -1
		}
		return i + m
	case WireFixed64:
		i += 8
	case WireFixed32:
		i += 4
	case WireBytes:
		l, m := uvarint(b[i:])
		if m < 0 || l > uint64(len(b)) {
			return -1
		}
		i += m + int(l)
	case WireStartGroup:
		depth := 1
		for depth > 0 {
			if i >= len(b) {
				return -1
			}
			tag, n := uvarint(b[i:])
			if n < 0 {
				return -1
			}
			i += n
			switch w := int(tag & 7); w {
			case WireStartGroup:
				depth++
			case WireEndGroup:
				depth--
			default:
				if i = skipValue(b, i, w); i < 0 {
					return -1
				}
			}
		}
	default:
		return -1
	}
	if i > len(b) {
		return -1
	}
	return i
}

// Parse splits b into top-level fields. ok=false if b is not a well-formed sequence of
// fields. Acceptance mirrors the generated decoders for UNKNOWN fields: field number must be
// a positive int32, wire types 6/7 and a top-level end-group are malformed, groups are
// skipped as one field (Wire = WireStartGroup, value = everything up to and including the
// matching end tag).
func Parse(b []byte) (fields []Field, ok bool) {
	i := 0
	for i < len(b) {
		tag, n := uvarint(b[i:])
		if n < 0 || int32(tag>>3) <= 0 {
			return nil, false
		}
		f := Field{Num: int(int32(tag >> 3)), Wire: int(tag & 7), Start: i}
		i += n
		if f.Wire == WireEndGroup {
			return nil, false
		}
		end := skipValue(b, i, f.Wire)
		if end < 0 {
			return nil, false
		}
		f.ValStart, f.End = i, end
		if f.Wire == WireBytes {
			_, m := uvarint(b[i:])
			f.ValStart = i + m
		}
		i = f.End
		fields = append(fields, f)
	}
	return fields, true
}

// Last returns the value of the last occurrence of field num with the given wire type
// (protobuf "last one wins" semantics for scalar/bytes fields), or nil,false.
func Last(b []byte, num, wire int) ([]byte, bool) {
	fs, ok := Parse(b)
	if !ok {
		return nil, false
	}
	for i := len(fs) - 1; i >= 0; i-- {
		if fs[i].Num == num && fs[i].Wire == wire {
			return b[fs[i].ValStart:fs[i].End], true
		}
	}
	return nil, false
}

func tagBytes(num, wire int) []byte { return AppendUvarint(nil, uint64(num)<<3|uint64(wire)) }

// EncodeBytesField encodes a length-delimited field.
func EncodeBytesField(num int, val []byte) []byte {
	out := tagBytes(num, WireBytes)
	out = AppendUvarint(out, uint64(len(val)))
	return append(out, val...)
}

// EncodeVarintField encodes a varint field.
func EncodeVarintField(num int, v uint64) []byte {
	return AppendUvarint(tagBytes(num, WireVarint), v)
}

func splice(b []byte, from, to int, repl []byte) []byte {
	out := make([]byte, 0, len(b)-(to-from)+len(repl))
	out = append(out, b[:from]...)
	out = append(out, repl...)
	return append(out, b[to:]...)
}

// ReplaceValue replaces the value of field occurrence f (re-encoding the length prefix of
// a bytes field; for other wire types val is written verbatim).
func ReplaceValue(b []byte, f Field, val []byte) []byte {
	if f.Wire == WireBytes {
		return splice(b, f.Start, f.End, EncodeBytesField(f.Num, val))
	}
	return splice(b, f.ValStart, f.End, val)
}

// SetField replaces the value of the last occurrence of field num (bytes or varint
// according to the field's wire type) or appends the field if it is absent.
func SetField(b []byte, num int, wire int, val []byte) []byte {
	fs, ok := Parse(b)
	if ok {
		for i := len(fs) - 1; i >= 0; i-- {
			if fs[i].Num == num && fs[i].Wire == wire {
				return ReplaceValue(b, fs[i], val)
			}
		}
	}
	if wire == WireBytes {
		return append(clone(b), EncodeBytesField(num, val)...)
	}
	return append(append(clone(b), tagBytes(num, wire)...), val...)
}

// Op is one single-field structural edit of a serialised message.
type Op struct {
	Kind  string `json:"kind"`
	Field int    `json:"field"` // index of the field occurrence (not the field number)
}

// OpKinds lists every kind Apply understands, in the order Ops enumerates them.
var OpKinds = []string{
	"delete", "duplicate", "swap-next", "move-last",
	"empty", "one-byte", "chop-last", "extend", "flip-first", "flip-last",
	"len+1", "len-1", "len-noncanonical",
	"varint+1", "varint-zero", "varint-max", "varint-noncanonical",
	"wiretype", "renumber",
	"append-unknown-bytes", "append-unknown-varint", "prepend-unknown",
}

func applies(kind string, f Field, idx, n int) bool {
	switch kind {
	case "delete", "duplicate", "wiretype", "renumber":
		return true
	case "swap-next":
		return idx+1 < n
	case "move-last":
		return idx+1 < n
	case "empty", "one-byte", "chop-last", "flip-first", "flip-last":
		return f.Wire == WireBytes && f.End > f.ValStart
	case "extend", "len+1", "len-1", "len-noncanonical":
		return f.Wire == WireBytes
	case "varint+1", "varint-zero", "varint-max", "varint-noncanonical":
		return f.Wire == WireVarint
	case "append-unknown-bytes", "append-unknown-varint", "prepend-unknown":
		return idx == 0 // message-level edits, listed once
	}
	return false
}

// Ops enumerates every applicable single-field edit of message b (nil if b does not parse
// or has no fields).
func Ops(b []byte) []Op {
	fs, ok := Parse(b)
	if !ok {
		return nil
	}
	var out []Op
	for i, f := range fs {
		for _, k := range OpKinds {
			if applies(k, f, i, len(fs)) {
				out = append(out, Op{Kind: k, Field: i})
			}
		}
	}
	return out
}

// Apply performs op on b. ok=false if the op is not applicable. The result always differs
// from b in its bytes (ops that would not change anything report ok=false).
func Apply(b []byte, op Op) (out []byte, ok bool) {
	fs, pok := Parse(b)
	if !pok || len(fs) == 0 {
		return nil, false
	}
	i := Mod(op.Field, len(fs))
	f := fs[i]
	if !applies(op.Kind, f, i, len(fs)) {
		return nil, false
	}
	whole := b[f.Start:f.End]
	val := b[f.ValStart:f.End]
	switch op.Kind {
	case "delete":
		out = splice(b, f.Start, f.End, nil)
	case "duplicate":
		out = splice(b, f.End, f.End, whole)
	case "swap-next":
		g := fs[i+1]
		out = append(clone(b[:f.Start]), b[g.Start:g.End]...)
		out = append(out, whole...)
		out = append(out, b[g.End:]...)
	case "move-last":
		out = append(splice(b, f.Start, f.End, nil), whole...)
	case "empty":
		out = ReplaceValue(b, f, nil)
	case "one-byte":
		out = ReplaceValue(b, f, []byte{val[0] ^ 0x55})
	case "chop-last":
		out = ReplaceValue(b, f, val[:len(val)-1])
	case "extend":
		out = ReplaceValue(b, f, append(clone(val), 0x00))
	case "flip-first":
		out = clone(b)
		out[f.ValStart] ^= 0x01
	case "flip-last":
		out = clone(b)
		out[f.End-1] ^= 0x80
	case "len+1", "len-1":
		// edit only the length prefix; the following bytes are re-interpreted
		l := uint64(len(val))
		if op.Kind == "len+1" {
			l++
		} else {
			if l == 0 {
				return nil, false
			}
			l--
		}
		pre := AppendUvarint(tagBytes(f.Num, f.Wire), l)
		out = splice(b, f.Start, f.ValStart, pre)
	case "len-noncanonical":
		// same length, encoded with a redundant continuation byte (0x85 0x00 instead of 0x05)
		l := uint64(len(val))
		enc := AppendUvarint(nil, l)
		enc[len(enc)-1] |= 0x80
		enc = append(enc, 0x00)
		out = splice(b, f.Start, f.ValStart, append(tagBytes(f.Num, f.Wire), enc...))
	case "varint+1", "varint-zero", "varint-max", "varint-noncanonical":
		v, _ := uvarint(val)
		var enc []byte
		switch op.Kind {
		case "varint+1":
			enc = AppendUvarint(nil, v+1)
		case "varint-zero":
			enc = AppendUvarint(nil, 0)
		case "varint-max":
			enc = AppendUvarint(nil, ^uint64(0))
		default:
			enc = AppendUvarint(nil, v)
			enc[len(enc)-1] |= 0x80
			enc = append(enc, 0x00)
		}
		out = splice(b, f.ValStart, f.End, enc)
	case "wiretype":
		// keep the field number, switch bytes<->varint (others -> varint)
		w := WireVarint
		if f.Wire == WireVarint {
			w = WireBytes
		}
		out = splice(b, f.Start, f.ValStart-lenPrefixLen(b, f), tagBytes(f.Num, w))
	case "renumber":
		out = splice(b, f.Start, f.ValStart-lenPrefixLen(b, f), tagBytes(f.Num+16, f.Wire))
	case "append-unknown-bytes":
		out = append(clone(b), EncodeBytesField(1000, []byte("x"))...)
	case "append-unknown-varint":
		out = append(clone(b), EncodeVarintField(1001, 1)...)
	case "prepend-unknown":
		out = append(EncodeVarintField(1002, 7), b...)
	default:
		return nil, false
	}
	if string(out) == string(b) {
		return nil, false
	}
	return out, true
}

// lenPrefixLen is the size of the length prefix of a bytes field (0 for other wire types).
func lenPrefixLen(b []byte, f Field) int {
	if f.Wire != WireBytes {
		return 0
	}
	_, n := uvarint(b[f.Start:])
	return f.ValStart - f.Start - n
}

// EditNested applies edit to the value of the (last) bytes field `path[0]` of b, recursing
// along path, and re-encodes all enclosing length prefixes. ok=false if the path does not
// exist or edit reports !ok.
func EditNested(b []byte, path []int, edit func([]byte) ([]byte, bool)) ([]byte, bool) {
	if len(path) == 0 {
		return edit(b)
	}
	fs, ok := Parse(b)
	if !ok {
		return nil, false
	}
	for i := len(fs) - 1; i >= 0; i-- {
		if fs[i].Num == path[0] && fs[i].Wire == WireBytes {
			inner, ok := EditNested(b[fs[i].ValStart:fs[i].End], path[1:], edit)
			if !ok {
				return nil, false
			}
			return ReplaceValue(b, fs[i], inner), true
		}
	}
	return nil, false
}

// Describe renders an op against a message for error messages.
func Describe(b []byte, op Op) string {
	fs, ok := Parse(b)
	if !ok || len(fs) == 0 {
		return fmt.Sprintf("%s@%d", op.Kind, op.Field)
	}
	f := fs[Mod(op.Field, len(fs))]
	return fmt.Sprintf("%s field#%d(num=%d,wire=%d)", op.Kind, Mod(op.Field, len(fs)), f.Num, f.Wire)
}
