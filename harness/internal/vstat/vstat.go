// Package vstat is the glue between the property packages and the ./vcheck driver:
// it counts generated cases, classifies them (non-trivial by the property's stated
// rule, class labels), keeps samples, writes the minimised failing case as a replay
// file, and re-executes replay files without rapid.
//
// Contract with the driver (all through environment variables):
//
//	VERIF_STATS       file the counters are written to (JSON) when the binary exits
//	VERIF_REPLAY_OUT  directory failing cases are written to (one file per test)
//	VERIF_REPLAY      a replay file to re-execute (TestReplay* tests)
//	VERIF_TIER        quick | thorough
//	VERIF_SEED        integer seed (informational here; the driver derives -rapid.seed)
//	VERIF_KNOWN       path of known_findings.json
package vstat

import (
	"encoding/json"
	"fmt"
	"hash/fnv"
	"os"
	"path/filepath"
	"runtime/debug"
	"sort"
	"strings"
	"sync"
	"testing"

	"pgregory.net/rapid"
)

// Outcome is what a property run reports about the case it just executed.
type Outcome struct {
	Sig        uint64   // signature of the normalised case (distinctness)
	NonTrivial bool     // by the property's stated rule
	Classes    []string // class labels (histogram)
	Excluded   string   // non-empty: case hit a known finding's signature and was excluded
}

type statsFile struct {
	Property    string            `json:"property"`
	Evaluations int64             `json:"evaluations"`
	NonTrivial  int64             `json:"nontrivial"`
	Sigs        []string          `json:"sigs"`
	SigOverflow bool              `json:"sig_overflow"`
	Classes     map[string]int64  `json:"classes"`
	Excluded    map[string]int64  `json:"excluded_known"`
	Samples     []json.RawMessage `json:"samples"`
	Violations  []violation       `json:"violations"`
	PerTest     map[string]int64  `json:"per_test"`
	Extra       map[string]int64  `json:"extra"`
}

type violation struct {
	Test   string `json:"test"`
	Replay string `json:"replay"`
	Msg    string `json:"msg"`
}

const maxSigs = 400000
const maxSamples = 6

var (
	mu  sync.Mutex
	st  = statsFile{Classes: map[string]int64{}, Excluded: map[string]int64{}, PerTest: map[string]int64{}, Extra: map[string]int64{}}
	sig = map[uint64]struct{}{}
)

// Tier returns "quick" or "thorough".
func Tier() string {
	if os.Getenv("VERIF_TIER") == "thorough" {
		return "thorough"
	}
	return "quick"
}

// Thorough reports whether the thorough tier is running.
func Thorough() bool { return Tier() == "thorough" }

// Pick returns q in the quick tier and th in the thorough tier.
func Pick[T any](q, th T) T {
	if Thorough() {
		return th
	}
	return q
}

// Hash is a convenience 64-bit FNV-1a over the parts.
func Hash(parts ...any) uint64 {
	h := fnv.New64a()
	for _, p := range parts {
		switch v := p.(type) {
		case []byte:
			h.Write(v)
		case string:
			h.Write([]byte(v))
		default:
			fmt.Fprintf(h, "%v", v)
		}
		h.Write([]byte{0})
	}
	return h.Sum64()
}

// HashJSON hashes the JSON encoding of v.
func HashJSON(v any) uint64 {
	b, _ := json.Marshal(v)
	return Hash(b)
}

// Count adds n to a free-form counter reported under coverage.extra.
func Count(name string, n int64) {
	mu.Lock()
	st.Extra[name] += n
	mu.Unlock()
}

func record(test string, o Outcome, sample func() any) {
	mu.Lock()
	defer mu.Unlock()
	st.Evaluations++
	st.PerTest[test]++
	for _, c := range o.Classes {
		st.Classes[c]++
	}
	if o.Excluded != "" {
		st.Excluded[o.Excluded]++
	}
	if o.NonTrivial {
		st.NonTrivial++
		if _, ok := sig[o.Sig]; !ok {
			if len(sig) < maxSigs {
				sig[o.Sig] = struct{}{}
			} else {
				st.SigOverflow = true
			}
			if len(st.Samples) < maxSamples && sample != nil {
				if b, err := json.Marshal(map[string]any{"test": test, "classes": o.Classes, "case": sample()}); err == nil {
					if len(b) > 6000 {
						b, _ = json.Marshal(map[string]any{"test": test, "classes": o.Classes, "case_truncated": string(b[:6000])})
					}
					st.Samples = append(st.Samples, b)
				}
			}
		}
	}
}

// Record lets hand-written loops (enumerations, fuzz targets) report a case.
func Record(test string, o Outcome, sample func() any) { record(test, o, sample) }

// Flush writes the counters to VERIF_STATS (no-op if unset).
func Flush() {
	path := os.Getenv("VERIF_STATS")
	if path == "" {
		return
	}
	mu.Lock()
	defer mu.Unlock()
	st.Sigs = st.Sigs[:0]
	for s := range sig {
		st.Sigs = append(st.Sigs, fmt.Sprintf("%x", s))
	}
	sort.Strings(st.Sigs)
	b, _ := json.Marshal(&st)
	tmp := path + ".tmp"
	if err := os.WriteFile(tmp, b, 0o644); err == nil {
		os.Rename(tmp, path)
	}
}

// Main is to be called from TestMain.
func Main(m *testing.M, property string) {
	st.Property = property
	code := m.Run()
	Flush()
	os.Exit(code)
}

type replayFile[C any] struct {
	Property string `json:"property"`
	Test     string `json:"test"`
	Error    string `json:"error"`
	Case     C      `json:"case"`
}

func writeReplay[C any](property, test string, c C, msg string) string {
	dir := os.Getenv("VERIF_REPLAY_OUT")
	if dir == "" {
		return ""
	}
	os.MkdirAll(dir, 0o755)
	name := strings.NewReplacer("/", "_", " ", "_").Replace(test) + ".json"
	path := filepath.Join(dir, name)
	if len(msg) > 4000 {
		msg = msg[:4000]
	}
	b, err := json.MarshalIndent(replayFile[C]{Property: property, Test: test, Error: msg, Case: c}, "", " ")
	if err != nil {
		b = []byte(fmt.Sprintf(`{"property":%q,"test":%q,"error":%q}`, property, test, msg+" (case not serialisable: "+err.Error()+")"))
	}
	os.WriteFile(path, b, 0o644)
	mu.Lock()
	found := false
	for i := range st.Violations {
		if st.Violations[i].Test == test {
			st.Violations[i].Msg = msg
			found = true
		}
	}
	if !found {
		st.Violations = append(st.Violations, violation{Test: test, Replay: path, Msg: msg})
	}
	mu.Unlock()
	return path
}

// safeRun runs the (rapid-free) property body, turning panics into errors.
func safeRun[C any](run func(C) (Outcome, error), c C) (o Outcome, err error) {
	defer func() {
		if r := recover(); r != nil {
			err = fmt.Errorf("PANIC: %v\n%s", r, debug.Stack())
		}
	}()
	return run(c)
}

// Check is the standard shape of a generated property: gen draws a plain-data case
// from rapid, run executes it without touching rapid. A failure (error or panic) writes
// the case as a replay file — rapid re-runs the minimal case last, so the file that
// remains is the shrunk one — and fails the rapid test.
func Check[C any](t *testing.T, property string, gen func(*rapid.T) C, run func(C) (Outcome, error)) {
	t.Helper()
	name := t.Name()
	rapid.Check(t, func(rt *rapid.T) {
		c := gen(rt)
		o, err := safeRun(run, c)
		if err != nil {
			p := writeReplay(property, name, c, err.Error())
			rt.Fatalf("property %s violated (replay %s): %v", property, p, err)
		}
		record(name, o, func() any { return c })
	})
}

// Enumerate runs run over every case yielded by iter (small-scope exhaustive
// generation). It stops at the first failure; enumerations are ordered by size so the
// first failure is a small one.
func Enumerate[C any](t *testing.T, property string, iter func(yield func(C) bool), run func(C) (Outcome, error)) {
	t.Helper()
	name := t.Name()
	iter(func(c C) bool {
		o, err := safeRun(run, c)
		if err != nil {
			p := writeReplay(property, name, c, err.Error())
			t.Errorf("property %s violated (replay %s): %v", property, p, err)
			return false
		}
		record(name, o, func() any { return c })
		return true
	})
}

// One runs a single hand-written case (regressions); failure is a violation.
func One[C any](t *testing.T, property string, c C, run func(C) (Outcome, error)) {
	t.Helper()
	o, err := safeRun(run, c)
	if err != nil {
		p := writeReplay(property, t.Name(), c, err.Error())
		t.Errorf("property %s violated (replay %s): %v", property, p, err)
		return
	}
	record(t.Name(), o, func() any { return c })
}

// Replay re-executes the case stored in $VERIF_REPLAY if its "test" field equals
// forTest (the name of the generating test). It bypasses rapid entirely.
func Replay[C any](t *testing.T, property, forTest string, run func(C) (Outcome, error)) {
	t.Helper()
	path := os.Getenv("VERIF_REPLAY")
	if path == "" {
		t.Skip("no VERIF_REPLAY")
	}
	b, err := os.ReadFile(path)
	if err != nil {
		t.Fatalf("read replay: %v", err)
	}
	var hdr struct {
		Test string `json:"test"`
	}
	json.Unmarshal(b, &hdr)
	base := hdr.Test
	if i := strings.Index(base, "/"); i >= 0 {
		base = base[:i]
	}
	if hdr.Test != forTest && base != forTest {
		t.Skipf("replay is for %s", hdr.Test)
	}
	var rf replayFile[C]
	if err := json.Unmarshal(b, &rf); err != nil {
		t.Fatalf("decode replay: %v", err)
	}
	_, err = safeRun(run, rf.Case)
	if err != nil {
		fmt.Printf("REPLAY-FAILED property=%s test=%s\n", property, forTest)
		t.Fatalf("replayed case violates %s: %v", property, err)
	}
	fmt.Printf("REPLAY-PASSED property=%s test=%s\n", property, forTest)
}

// Known is one entry of known_findings.json.
type Known struct {
	Property  string `json:"property"`
	Status    string `json:"status"` // "known" | "fixed"
	Signature string `json:"signature"`
	What      string `json:"what"`
	Commit    string `json:"commit,omitempty"`
	Test      string `json:"regression_test,omitempty"`
}

var (
	knownOnce sync.Once
	known     []Known
)

// KnownSignature reports whether signature is listed as a known (unrepaired) finding
// for the property; generators use it to exclude exactly that signature.
func KnownSignature(property, signature string) bool {
	knownOnce.Do(func() {
		p := os.Getenv("VERIF_KNOWN")
		if p == "" {
			p = "/verif/known_findings.json"
		}
		b, err := os.ReadFile(p)
		if err != nil {
			return
		}
		var f struct {
			Findings []Known `json:"findings"`
		}
		if json.Unmarshal(b, &f) == nil {
			known = f.Findings
		}
	})
	for _, k := range known {
		if k.Property == property && k.Status == "known" && k.Signature == signature {
			return true
		}
	}
	return false
}
