// Package c10 decides property C10: tree / ACL / space persistence is all-or-nothing
// under process death and storage errors at every storage-call boundary.
package c10

import (
	"context"
	"errors"
	"fmt"
	"os"
	"sort"
	"strings"
	"testing"

	anystore "github.com/anyproto/any-store"
	"github.com/anyproto/any-store/query"
	"pgregory.net/rapid"

	"github.com/anyproto/any-sync/commonspace/headsync/headstorage"
	"github.com/anyproto/any-sync/commonspace/object/acl/list"
	"github.com/anyproto/any-sync/commonspace/object/acl/recordverifier"
	"github.com/anyproto/any-sync/commonspace/object/tree/objecttree"
	"github.com/anyproto/any-sync/commonspace/object/tree/synctree"
	"github.com/anyproto/any-sync/commonspace/object/tree/treechangeproto"
	"github.com/anyproto/any-sync/commonspace/object/tree/treestorage"
	"github.com/anyproto/any-sync/commonspace/spacestorage"
	"github.com/anyproto/any-sync/commonspace/spacesyncproto"

	"verif/harness/internal/aclgen"
	"verif/harness/internal/faultstore"
	"verif/harness/internal/treesim"
	"verif/harness/internal/vstat"
)

const prop = "C10"

var outerT *testing.T

func TestMain(m *testing.M) { vstat.Main(m, prop) }

type Op struct {
	K string `json:"k"`
	A int    `json:"a,omitempty"`
	B int    `json:"b,omitempty"`
}

type Case struct {
	Seed uint64 `json:"seed"`
	Ops  []Op   `json:"ops"`
}

const (
	subject  = 1 // the replica whose storage is faulted
	producer = 0 // the honest peer that produces remote changes
)

func genCase(rt *rapid.T) Case {
	c := Case{Seed: rapid.Uint64Range(1, 1<<40).Draw(rt, "seed")}
	c.Ops = append(c.Ops, Op{K: "space_create"})
	pre := rapid.IntRange(0, 3).Draw(rt, "pre")
	if rapid.IntRange(0, 7).Draw(rt, "bigfetch") == 0 {
		pre = 258 + rapid.IntRange(0, 30).Draw(rt, "bigpre") // a fetched tree larger than any plausible write chunk
	}
	c.Ops = append(c.Ops, Op{K: rapid.SampledFrom([]string{"create_eager", "create_deferred"}).Draw(rt, "create"), A: pre})
	n := rapid.IntRange(2, vstat.Pick(6, 10)).Draw(rt, "nops")
	for i := 0; i < n; i++ {
		k := rapid.SampledFrom([]string{"local", "local", "snapshot", "remote", "remote", "remote_snapshot", "stale_remote", "acl", "reopen"}).Draw(rt, "k")
		c.Ops = append(c.Ops, Op{K: k, A: rapid.IntRange(1, 3).Draw(rt, "a"), B: rapid.IntRange(0, 3).Draw(rt, "b")})
	}
	if rapid.IntRange(0, 6).Draw(rt, "bulksync") == 0 {
		c.Ops = append(c.Ops, Op{K: "bulk_sync", A: rapid.IntRange(0, 20).Draw(rt, "bulksyncn")})
	}
	if rapid.Bool().Draw(rt, "del") {
		if rapid.IntRange(0, 2).Draw(rt, "bulk") == 0 {
			c.Ops = append(c.Ops, Op{K: "bulk", A: rapid.IntRange(0, 10).Draw(rt, "bulkn")})
		}
		c.Ops = append(c.Ops, Op{K: "delete"})
	}
	return c
}

// ---- durable state --------------------------------------------------------------------

type durable struct {
	digest string // everything that must be all-or-nothing
	nTree  int
}

// readDurable opens the database at dir/<base> with the REAL constructors and renders the
// durable state; it also checks the validity clauses of the statement.
func readDurable(s *treesim.Sim, dir, base string) (durable, error) {
	ctx := context.Background()
	var d durable
	db, err := anystore.Open(ctx, dir+"/"+base, nil)
	if err != nil {
		return d, fmt.Errorf("reopen database: %w", err)
	}
	defer db.Close()
	var b strings.Builder
	ss, err := spacestorage.New(ctx, s.SpaceId, db)
	if err != nil {
		// the space does not exist (yet): legal only as the pre-state of space creation
		return durable{digest: "no-space"}, nil
	}
	// ACL
	aclSt, err := ss.AclStorage()
	if err != nil {
		return d, fmt.Errorf("AclStorage: %w", err)
	}
	acl, err := list.BuildAclListWithIdentity(s.Replicas[subject].Keys, aclSt, recordverifier.NewValidateFull())
	if err != nil {
		return d, fmt.Errorf("reopened ACL does not build: %w", err)
	}
	head, err := aclSt.Head(ctx)
	if err != nil {
		return d, fmt.Errorf("acl head: %w", err)
	}
	if acl.Head().Id != head {
		return d, fmt.Errorf("reopened ACL list head %s differs from the stored head %s", acl.Head().Id, head)
	}
	// the ACL head is the last stored record: walk the chain and count the stored records
	chain := 0
	for id := head; id != ""; {
		r, err := aclSt.Get(ctx, id)
		if err != nil {
			return d, fmt.Errorf("acl head chain: record %s named but not stored: %w", id, err)
		}
		chain++
		id = r.PrevId
	}
	stored := 0
	if err := aclSt.GetAfterOrder(ctx, 1, func(ctx context.Context, r list.StorageRecord) (bool, error) { stored++; return true, nil }); err != nil {
		return d, err
	}
	if stored != chain {
		return d, fmt.Errorf("ACL storage holds %d records but the head's chain has %d: the head is not the last stored record", stored, chain)
	}
	fmt.Fprintf(&b, "acl head=%s n=%d\n", head, chain)
	// settings tree must always be there once the space is
	if _, err := ss.TreeStorage(ctx, s.Settings.Id); err != nil {
		return d, fmt.Errorf("space exists but its settings tree storage does not open: %w", err)
	}
	// the object tree
	st, err := ss.TreeStorage(ctx, s.Root.Id)
	if err != nil {
		if errors.Is(err, treestorage.ErrUnknownTreeId) {
			entry, eerr := ss.HeadStorage().GetEntry(ctx, s.Root.Id)
			if eerr == nil && entry.DeletedStatus == 0 && len(entry.Heads) > 0 {
				return d, fmt.Errorf("heads entry for the tree exists (%v) but the tree storage does not open", entry.Heads)
			}
			// nothing of the tree may be left behind either (a delete is all-or-nothing)
			orphans := 0
			if coll, cerr := db.OpenCollection(ctx, objecttree.CollName); cerr == nil {
				orphans, _ = coll.Find(query.Key{Path: []string{objecttree.TreeKey}, Filter: query.NewComp(query.CompOpEq, s.Root.Id)}).Count(ctx)
			}
			fmt.Fprintf(&b, "tree absent, %d of its changes left in the changes collection\n", orphans)
			return durable{digest: b.String()}, nil
		}
		return d, fmt.Errorf("TreeStorage: %w", err)
	}
	entry, err := ss.HeadStorage().GetEntry(ctx, s.Root.Id)
	if err != nil {
		return d, fmt.Errorf("tree storage opens but has no heads entry: %w", err)
	}
	changes := map[string]objecttree.StorageChange{}
	var order []string
	if err := st.GetAfterOrder(ctx, "", func(ctx context.Context, c objecttree.StorageChange) (bool, error) {
		c.RawChange = nil
		changes[c.Id] = c
		order = append(order, c.Id)
		return true, nil
	}); err != nil {
		return d, err
	}
	pos := map[string]int{}
	for i, id := range order {
		pos[id] = i
	}
	if len(changes) == 0 {
		fmt.Fprintf(&b, "tree deleted-storage heads=%v status=%d\n", entry.Heads, entry.DeletedStatus)
		return durable{digest: b.String()}, nil
	}
	for _, h := range entry.Heads {
		if _, ok := changes[h]; !ok {
			return d, fmt.Errorf("recorded head %s names a change that is not stored", h)
		}
	}
	if _, ok := changes[entry.CommonSnapshot]; !ok {
		return d, fmt.Errorf("recorded common snapshot %s is not stored", entry.CommonSnapshot)
	}
	for id, c := range changes {
		for _, p := range c.PrevIds {
			if _, ok := changes[p]; !ok {
				return d, fmt.Errorf("stored change %s has parent %s that is not stored", id, p)
			}
			if pos[p] >= pos[id] {
				return d, fmt.Errorf("stored order violates causality: %s is stored before its parent %s", id, p)
			}
		}
		if c.SnapshotId != "" {
			if _, ok := changes[c.SnapshotId]; !ok {
				return d, fmt.Errorf("stored change %s has snapshot base %s that is not stored", id, c.SnapshotId)
			}
		}
	}
	tree, err := objecttree.BuildObjectTree(st, acl)
	if err != nil {
		return d, fmt.Errorf("reopened tree does not build: %w", err)
	}
	if !sameSet(tree.Heads(), entry.Heads) {
		return d, fmt.Errorf("reopened tree reports heads %v, the heads entry says %v", tree.Heads(), entry.Heads)
	}
	hs := append([]string(nil), entry.Heads...)
	sort.Strings(hs)
	var ids []string
	for _, id := range order {
		ids = append(ids, id+"@"+changes[id].OrderId)
	}
	fmt.Fprintf(&b, "tree heads=%v snapshot=%s changes=%v\n", hs, entry.CommonSnapshot, ids)
	return durable{digest: b.String(), nTree: len(changes)}, nil
}

func sameSet(a, b []string) bool {
	if len(a) != len(b) {
		return false
	}
	x, y := append([]string(nil), a...), append([]string(nil), b...)
	sort.Strings(x)
	sort.Strings(y)
	for i := range x {
		if x[i] != y[i] {
			return false
		}
	}
	return true
}

// ---- operations -----------------------------------------------------------------------

// action is one faultable operation with replayable inputs.
type action struct {
	name  string
	needs string // "nospace", "notree", "tree"
	apply func(rep *treesim.Replica, db anystore.DB) error
	// live returns what the live objects claim after the call (compared with a reopen)
	retrySame bool
}

type world struct {
	s       *treesim.Sim
	dir     string // scratch directory of this case
	base    string // file name of the subject database
	classes map[string]bool
	nBound  int
	nInside int
}

func (w *world) mainPath() string { return w.s.DBPath(subject) }

func copyTo(src, dstDir string) error { return faultstore.CopyDB(src, dstDir) }

// openOn opens the database copy in dir wrapped by a fault store and builds the subject on it.
func (w *world) openOn(dir string, needSpace bool) (*faultstore.DB, *treesim.Replica, error) {
	ctx := context.Background()
	path := dir + "/" + w.base
	raw, err := anystore.Open(ctx, path, nil)
	if err != nil {
		return nil, nil, err
	}
	fdb := faultstore.Wrap(raw, path)
	if !needSpace {
		return fdb, nil, nil
	}
	rep, err := w.s.ReplicaOn(subject, fdb)
	if err != nil {
		raw.Close()
		return nil, nil, err
	}
	return fdb, rep, nil
}

func closeRep(rep *treesim.Replica, fdb *faultstore.DB) {
	if rep != nil && rep.Tree != nil {
		rep.Tree.Close()
	}
	fdb.DB.Close()
}

// liveVsStorage: after a failed (non-fatal) write the live object still agrees with storage.
func liveVsStorage(s *treesim.Sim, rep *treesim.Replica) error {
	ctx := context.Background()
	if rep == nil {
		return nil
	}
	if rep.Acl != nil {
		st, err := rep.Space.AclStorage()
		if err != nil {
			return err
		}
		h, err := st.Head(ctx)
		if err != nil {
			return err
		}
		if rep.Acl.Head().Id != h {
			return fmt.Errorf("live ACL list head %s differs from the stored ACL head %s", rep.Acl.Head().Id, h)
		}
	}
	if rep.Tree != nil {
		entry, err := rep.Space.HeadStorage().GetEntry(ctx, s.Root.Id)
		if err != nil {
			return fmt.Errorf("heads entry: %w", err)
		}
		rep.Tree.Lock()
		heads := append([]string(nil), rep.Tree.Heads()...)
		var iter []string
		ierr := rep.Tree.IterateRoot(nil, func(c *objecttree.Change) bool { iter = append(iter, c.Id); return true })
		rep.Tree.Unlock()
		if ierr != nil {
			if errors.Is(ierr, objecttree.ErrDeleted) || errors.Is(ierr, synctree.ErrSyncTreeDeleted) {
				// the live object says "deleted": then storage must not hold the tree any more
				if ok, _ := rep.Tree.Storage().Has(ctx, s.Root.Id); ok {
					return fmt.Errorf("live tree reports itself deleted but its changes are still stored")
				}
				return nil
			}
			return fmt.Errorf("live tree iteration: %w", ierr)
		}
		if !sameSet(heads, entry.Heads) {
			return fmt.Errorf("live tree heads %s differ from the stored heads entry %s", treesim.Short(heads), treesim.Short(entry.Heads))
		}
		for _, id := range iter {
			ok, err := rep.Tree.Storage().Has(ctx, id)
			if err != nil {
				return err
			}
			if !ok {
				return fmt.Errorf("live tree iterates change %s that is not stored", id)
			}
		}
	}
	return nil
}

// faultAction runs one action under every boundary, as crash image and as injected error,
// each from a fresh copy of the pre-operation database.
func (w *world) faultAction(step int, a action) error {
	needSpace := a.needs != "nospace"
	pre := fmt.Sprintf("%s/pre-%d", w.dir, step)
	if err := copyTo(w.mainPath(), pre); err != nil {
		return err
	}
	defer os.RemoveAll(pre)
	preState, err := readDurableCopy(w, pre)
	if err != nil {
		return fmt.Errorf("step %d (%s): pre-state invalid: %v", step, a.name, err)
	}
	// --- fault-free run on a copy, taking a crash image at every boundary
	run0 := fmt.Sprintf("%s/run0-%d", w.dir, step)
	imgs := fmt.Sprintf("%s/img-%d", w.dir, step)
	defer os.RemoveAll(run0)
	defer os.RemoveAll(imgs)
	if err := copyTo(pre+"/"+w.base, run0); err != nil {
		return err
	}
	fdb, rep, err := w.openOn(run0, needSpace)
	if err != nil {
		return fmt.Errorf("step %d (%s): open copy: %v", step, a.name, err)
	}
	mark := len(w.s.InFlight)
	fdb.Reset()
	fdb.ImageEvery(imgs)
	aerr := a.apply(rep, fdb)
	bounds := fdb.Log()
	_, imgErr := fdb.Imaged()
	fdb.Reset()
	var liveErr error
	if aerr == nil {
		// the operation reported success: what the live objects now claim must be what storage holds
		liveErr = liveVsStorage(w.s, rep)
	}
	closeRep(rep, fdb)
	if liveErr != nil && imgErr == nil {
		return fmt.Errorf("step %d (%s): the operation succeeded without any fault, yet the live object disagrees with storage: %v", step, a.name, liveErr)
	}
	w.s.InFlight = w.s.InFlight[:mark]
	if imgErr != nil {
		return imgErr
	}
	if aerr != nil {
		// the operation is not applicable in this state (e.g. rejected input): nothing to fault
		w.classes["op-inapplicable-"+a.name] = true
		return errSkip
	}
	postState, err := readDurableCopy(w, run0)
	if err != nil {
		return fmt.Errorf("step %d (%s): state after the fault-free operation is invalid: %v", step, a.name, err)
	}
	w.classes["op-"+a.name] = true
	if os.Getenv("VERIF_DEBUG") != "" {
		fmt.Printf("BOUNDS %s: %+v\n", a.name, bounds)
	}
	// an operation with very many boundaries (a bulk add): every transaction edge is kept, the
	// inserts in between are thinned out evenly (counted in coverage.extra)
	keep := map[int]bool{}
	if len(bounds) > 48 {
		for i, b := range bounds {
			edge := b.Kind == "begin" || b.Kind == "commit" || (i > 0 && (bounds[i-1].Kind == "begin" || bounds[i-1].Kind == "commit")) ||
				(i+1 < len(bounds) && (bounds[i+1].Kind == "commit" || bounds[i+1].Kind == "begin"))
			if edge || i < 3 || i >= len(bounds)-3 || i%(len(bounds)/24+1) == 0 {
				keep[b.N] = true
			}
		}
		w.classes["bulk-operation-thinned"] = true
		vstat.Count("boundaries_thinned_out", int64(len(bounds)-len(keep)))
	}
	skip := func(b faultstore.Boundary) bool { return len(keep) > 0 && !keep[b.N] }
	// --- crash images
	for _, b := range bounds {
		if b.Kind == "rollback" || skip(b) {
			continue
		}
		img := fmt.Sprintf("%s/%d", imgs, b.N)
		if _, err := os.Stat(img); err != nil {
			continue
		}
		st, err := readDurableCopy(w, img)
		where := fmt.Sprintf("step %d (%s): process death at boundary %d/%d (%s %s, %d docs written in tx)", step, a.name, b.N, len(bounds), b.Kind, b.Coll, b.Docs)
		if err != nil {
			return fmt.Errorf("%s: reopened state is invalid: %v", where, err)
		}
		if st.digest != preState.digest && st.digest != postState.digest {
			return fmt.Errorf("%s: durable state is neither the state before nor the state after the operation:\n--- got ---\n%s--- before ---\n%s--- after ---\n%s", where, st.digest, preState.digest, postState.digest)
		}
		w.nBound++
		if b.InTx && b.Docs > 0 && b.Kind != "begin" {
			w.nInside++
			w.classes["crash-inside-tx-"+a.name] = true
		}
		w.classes["crash-"+b.Kind] = true
	}
	// --- injected errors
	for _, b := range bounds {
		if b.Kind == "rollback" || skip(b) {
			continue
		}
		runk := fmt.Sprintf("%s/runk-%d-%d", w.dir, step, b.N)
		if err := copyTo(pre+"/"+w.base, runk); err != nil {
			return err
		}
		err := w.injectAt(step, a, b, len(bounds), runk, needSpace, postState)
		os.RemoveAll(runk)
		if err != nil {
			return err
		}
	}
	return nil
}

var errSkip = errors.New("skip")

func readDurableCopy(w *world, dir string) (durable, error) {
	// read from a private copy so that reopening (which may checkpoint the WAL) does not disturb dir
	tmp := dir + "-read"
	if err := copyTo(dir+"/"+w.base, tmp); err != nil {
		return durable{}, err
	}
	defer os.RemoveAll(tmp)
	return readDurable(w.s, tmp, w.base)
}

func (w *world) injectAt(step int, a action, b faultstore.Boundary, nb int, dir string, needSpace bool, post durable) error {
	where := fmt.Sprintf("step %d (%s): storage error at boundary %d/%d (%s %s)", step, a.name, b.N, nb, b.Kind, b.Coll)
	fdb, rep, err := w.openOn(dir, needSpace)
	if err != nil {
		return fmt.Errorf("%s: open copy: %v", where, err)
	}
	mark := len(w.s.InFlight)
	defer func() { w.s.InFlight = w.s.InFlight[:mark] }()
	fdb.Reset()
	fdb.FailAt(b.N)
	aerr := a.apply(rep, fdb)
	if os.Getenv("VERIF_DEBUG") != "" {
		fmt.Printf("INJECT %s at %d: err=%v log=%+v\n", a.name, b.N, aerr, fdb.Log())
	}
	fdb.Reset()
	if aerr == nil {
		// only legal if the fault hit after the data was committed; then the state must be the post-state
		closeRep(rep, fdb)
		st, err := readDurableCopy(w, dir)
		if err != nil {
			return fmt.Errorf("%s: operation reported success; reopened state invalid: %v", where, err)
		}
		if st.digest != post.digest {
			return fmt.Errorf("%s: operation reported SUCCESS although the storage call failed, and the durable state is not the post-state:\n%s--- expected ---\n%s", where, st.digest, post.digest)
		}
		w.classes["error-swallowed-but-committed"] = true
		return nil
	}
	w.classes["inject-"+b.Kind] = true
	if a.needs == "nospace" || rep == nil {
		// creation failed: nothing live to compare; the same input must be accepted again.
		// The retry uses a fresh database handle: any-store (a dependency, trusted base) keeps
		// collections created inside a rolled-back transaction in its handle's cache, so a
		// retry on the SAME handle fails with "no such table" — not any-sync's doing.
		closeRep(rep, fdb)
		fdb, rep, err = w.openOn(dir, false)
		if err != nil {
			return fmt.Errorf("%s: reopen after failed creation: %v", where, err)
		}
		if err := a.apply(rep, fdb); err != nil {
			closeRep(rep, fdb)
			return fmt.Errorf("%s: the same input is not accepted again after the failed write: %v", where, err)
		}
		closeRep(rep, fdb)
		st, err := readDurableCopy(w, dir)
		if err != nil {
			return fmt.Errorf("%s: state after retry invalid: %v", where, err)
		}
		if st.digest != post.digest {
			return fmt.Errorf("%s: state after retry differs from the fault-free post-state:\n%s--- expected ---\n%s", where, st.digest, post.digest)
		}
		return nil
	}
	// live object agrees with storage
	if err := liveVsStorage(w.s, rep); err != nil {
		closeRep(rep, fdb)
		return fmt.Errorf("%s: after the failed write (%v) the live object disagrees with storage: %v", where, aerr, err)
	}
	// and accepts the same input again successfully
	if a.retrySame {
		if err := a.apply(rep, fdb); err != nil {
			closeRep(rep, fdb)
			return fmt.Errorf("%s: the same input is not accepted again after the failed write (%v): %v", where, aerr, err)
		}
		if err := liveVsStorage(w.s, rep); err != nil {
			closeRep(rep, fdb)
			return fmt.Errorf("%s: after the successful retry the live object disagrees with storage: %v", where, err)
		}
		closeRep(rep, fdb)
		st, err := readDurableCopy(w, dir)
		if err != nil {
			return fmt.Errorf("%s: state after retry invalid: %v", where, err)
		}
		if st.nTree != post.nTree || (a.name != "local" && a.name != "snapshot" && st.digest != post.digest) {
			return fmt.Errorf("%s: state after the retry differs from the fault-free post-state:\n%s--- expected ---\n%s", where, st.digest, post.digest)
		}
		return nil
	}
	closeRep(rep, fdb)
	return nil
}

// ---- the property ----------------------------------------------------------------------

func run(c Case) (out vstat.Outcome, err error) {
	extra := []aclgen.Op{{Kind: "read_key_change", Actor: 0}, {Kind: "invite", Actor: 0}, {Kind: "read_key_change", Actor: 0}, {Kind: "options", Actor: 0, Flag: true}, {Kind: "invite_anyone", Actor: 0, Perm: aclgen.Reader}, {Kind: "read_key_change", Actor: 0}}
	s, err := treesim.New(outerT, treesim.Options{N: 2, Seed: c.Seed, Holders: 1, ExtraAclOps: extra})
	if err != nil {
		return out, fmt.Errorf("setup: %w", err)
	}
	defer s.Close()
	w := &world{s: s, dir: s.Scratch.Dir, base: "replica-1.db", classes: map[string]bool{}}
	sub := func() *treesim.Replica { return s.Replicas[subject] }
	ctx := context.Background()
	nextAcl := 0
	clock := 0

	// drain messages to the producer reliably, drop what is addressed to the subject
	syncProducer := func() error {
		for i := 0; i < len(s.InFlight); {
			if s.InFlight[i].To == producer {
				if err := s.Step(i, treesim.Deliver, 0); err != nil {
					return err
				}
				i = 0
				continue
			}
			i++
		}
		return nil
	}
	takeForSubject := func() []*treesim.Msg {
		var ms []*treesim.Msg
		var rest []*treesim.Msg
		for _, m := range s.InFlight {
			if m.To == subject && m.Kind == treesim.HeadUpdate {
				ms = append(ms, m)
			} else {
				rest = append(rest, m)
			}
		}
		s.InFlight = rest
		return ms
	}
	var staleMsgs []*treesim.Msg

	for step, op := range c.Ops {
		var a action
		switch op.K {
		case "space_create":
			// on a brand-new empty database
			if err := sub().Detach(); err != nil {
				return out, err
			}
			os.Remove(w.mainPath())
			os.Remove(w.mainPath() + "-wal")
			os.Remove(w.mainPath() + "-shm")
			db, err := anystore.Open(ctx, w.mainPath(), nil)
			if err != nil {
				return out, err
			}
			db.Close()
			a = action{name: "space_create", needs: "nospace", apply: func(_ *treesim.Replica, db anystore.DB) error {
				_, err := spacestorage.Create(ctx, db, spacestorage.SpaceStorageCreatePayload{
					AclWithId:           aclgen.CloneRec(s.AclRecords[0]),
					SpaceHeaderWithId:   &spacesyncproto.RawSpaceHeaderWithId{RawHeader: []byte("header"), Id: s.SpaceId},
					SpaceSettingsWithId: &treechangeproto.RawTreeChangeWithId{RawChange: s.Settings.RawChange, Id: s.Settings.Id},
				})
				return err
			}}
		case "create_eager":
			a = action{name: "create_eager", needs: "notree", retrySame: true, apply: func(rep *treesim.Replica, _ anystore.DB) error {
				if rep.Tree != nil {
					return nil
				}
				return rep.PutTree()
			}}
		case "create_deferred":
			// the producer edits first so that the fetched tree has content
			for i := 0; i < op.A; i++ {
				if _, err := s.Edit(producer, i == 1 && op.A < 10, 12); err != nil {
					return out, err
				}
			}
			s.InFlight = nil
			a = action{name: "create_deferred", needs: "notree", retrySame: true, apply: func(rep *treesim.Replica, _ anystore.DB) error {
				if rep.Tree != nil {
					return nil
				}
				return s.FetchOn(rep, producer)
			}}
		case "local", "snapshot":
			clock++
			snap := op.K == "snapshot"
			data := []byte(fmt.Sprintf("subject-%d", clock))
			ts := int64(1_800_000_000 + clock)
			a = action{name: op.K, needs: "tree", retrySame: true, apply: func(rep *treesim.Replica, _ anystore.DB) error {
				if rep.Tree == nil {
					return fmt.Errorf("no tree")
				}
				rep.Tree.Lock()
				defer rep.Tree.Unlock()
				_, err := rep.Tree.AddContent(ctx, objecttree.SignableChangeContent{Data: data, Key: rep.Keys.SignKey, IsSnapshot: snap, Timestamp: ts, DataType: "t"})
				return err
			}}
		case "remote", "remote_snapshot", "stale_remote":
			if sub().Tree == nil {
				continue
			}
			if op.K == "stale_remote" {
				if len(staleMsgs) == 0 {
					continue
				}
				m := staleMsgs[op.A%len(staleMsgs)]
				a = action{name: "stale_remote", needs: "tree", retrySame: true, apply: func(rep *treesim.Replica, _ anystore.DB) error {
					return s.HandleHeadUpdateOn(rep, m)
				}}
				break
			}
			for i := 0; i < op.A; i++ {
				if _, err := s.Edit(producer, op.K == "remote_snapshot" && i == 0, 10+op.B); err != nil {
					return out, err
				}
			}
			ms := takeForSubject()
			if len(ms) == 0 {
				continue
			}
			// deliver all but the last without faults; the last one is the faulted operation
			for _, m := range ms[:len(ms)-1] {
				if err := s.HandleHeadUpdateOn(sub(), m); err != nil {
					return out, fmt.Errorf("step %d: honest head update rejected: %v", step, err)
				}
			}
			last := ms[len(ms)-1]
			staleMsgs = append(staleMsgs, ms...)
			a = action{name: op.K, needs: "tree", retrySame: true, apply: func(rep *treesim.Replica, _ anystore.DB) error {
				return s.HandleHeadUpdateOn(rep, last)
			}}
		case "bulk_sync":
			// the producer runs far ahead while the subject is offline; the subject then asks for a
			// full sync and the whole stretch arrives in ONE response batch = one storage write
			if sub().Tree == nil {
				continue
			}
			for i := 0; i < 258+op.A; i++ {
				if _, err := s.Edit(producer, false, 8); err != nil {
					return out, err
				}
			}
			s.InFlight = nil // every head update is lost
			if err := s.SyncWithPeer(subject, producer); err != nil {
				return out, err
			}
			if err := syncProducer(); err != nil { // the producer serves the request
				return out, err
			}
			var stream *treesim.Msg
			for _, m := range s.InFlight {
				if m.Kind == treesim.ResponseStream && m.To == subject {
					stream = m
				}
			}
			s.InFlight = nil
			if stream == nil {
				continue
			}
			a = action{name: "bulk_sync", needs: "tree", retrySame: true, apply: func(rep *treesim.Replica, _ anystore.DB) error {
				return s.DeliverStreamOn(rep, stream)
			}}
		case "bulk":
			// not faulted: a long stretch of remote changes (more than one deletion batch would hold)
			if sub().Tree == nil {
				continue
			}
			for i := 0; i < 105+op.A; i++ {
				if _, err := s.Edit(producer, false, 8); err != nil {
					return out, err
				}
			}
			for _, m := range takeForSubject() {
				if err := s.HandleHeadUpdateOn(sub(), m); err != nil {
					return out, fmt.Errorf("step %d: honest head update rejected: %v", step, err)
				}
			}
			if err := syncProducer(); err != nil {
				return out, err
			}
			takeForSubject()
			w.classes["bulk"] = true
			continue
		case "acl":
			if nextAcl >= len(s.ExtraAcl) {
				continue
			}
			rec := s.ExtraAcl[nextAcl]
			a = action{name: "acl", needs: "space", retrySame: true, apply: func(rep *treesim.Replica, _ anystore.DB) error {
				return rep.Acl.AddRawRecord(aclgen.CloneRec(rec))
			}}
		case "reopen":
			// not faulted: the subject restarts, its in-memory tree is reduced to the last snapshot,
			// so that a later remote add may need a rebuild from storage
			if err := sub().Detach(); err != nil {
				return out, err
			}
			db, err := anystore.Open(ctx, w.mainPath(), nil)
			if err != nil {
				return out, err
			}
			if err := s.Attach(subject, db); err != nil {
				return out, fmt.Errorf("step %d: subject does not reopen: %v", step, err)
			}
			w.classes["reopen"] = true
			continue
		case "delete":
			if sub().Tree == nil {
				continue
			}
			// as in production, the object is queued for deletion (deletion state) before the
			// worker deletes the tree's changes
			queued := headstorage.DeletedStatusQueued
			if err := sub().Space.HeadStorage().UpdateEntry(ctx, headstorage.HeadsUpdate{Id: s.Root.Id, DeletedStatus: &queued}); err != nil {
				return out, err
			}
			a = action{name: "delete", needs: "tree", retrySame: true, apply: func(rep *treesim.Replica, _ anystore.DB) error {
				if rep.Tree == nil {
					return fmt.Errorf("no tree")
				}
				return rep.Tree.Delete()
			}}
		default:
			continue
		}
		if a.needs == "tree" && sub().Tree == nil && op.K != "space_create" {
			continue
		}
		// freeze the main database, fault the action on copies
		if op.K != "space_create" {
			if err := sub().Detach(); err != nil {
				return out, err
			}
		}
		ferr := w.faultAction(step, a)
		if ferr != nil && ferr != errSkip {
			return out, ferr
		}
		// advance the main database with the real operation
		db, err := anystore.Open(ctx, w.mainPath(), nil)
		if err != nil {
			return out, err
		}
		if op.K == "space_create" {
			if err := a.apply(nil, db); err != nil {
				return out, fmt.Errorf("space create: %v", err)
			}
		}
		if err := s.Attach(subject, db); err != nil {
			return out, fmt.Errorf("step %d: subject does not reopen: %v", step, err)
		}
		if op.K == "space_create" {
			// bring the subject's ACL up to date like newReplica does
			for _, rec := range s.AclRecords[1:] {
				if err := sub().Acl.AddRawRecord(aclgen.CloneRec(rec)); err != nil {
					return out, err
				}
			}
			continue
		}
		if ferr == errSkip {
			continue
		}
		if err := a.apply(sub(), db); err != nil {
			return out, fmt.Errorf("step %d (%s): fault-free operation failed on the main database: %v", step, a.name, err)
		}
		if op.K == "acl" {
			// the producer learns the record too (honest participants share the ACL)
			if err := s.Replicas[producer].Acl.AddRawRecord(aclgen.CloneRec(s.ExtraAcl[nextAcl])); err != nil {
				return out, err
			}
			nextAcl++
		}
		if op.K == "delete" {
			sub().Tree = nil
			break
		}
		if err := syncProducer(); err != nil {
			return out, err
		}
		takeForSubject()
	}
	out.Sig = vstat.HashJSON(c)
	out.NonTrivial = w.nInside > 0
	for k := range w.classes {
		out.Classes = append(out.Classes, k)
	}
	vstat.Count("boundaries_crash_images", int64(w.nBound))
	vstat.Count("boundaries_inside_tx_after_first_doc", int64(w.nInside))
	return out, nil
}

func TestRandom(t *testing.T) {
	outerT = t
	vstat.Check(t, prop, genCase, run)
}

func TestReplay(t *testing.T) {
	outerT = t
	t.Run("TestRandom", func(t *testing.T) { vstat.Replay(t, prop, "TestRandom", run) })
}

// Regressions for defects found on the pinned tree and repaired by "fix:" commits.
func TestRegDeferredCreateCommitError(t *testing.T) {
	outerT = t
	vstat.One(t, prop, Case{Seed: 60477, Ops: []Op{{K: "space_create"}, {K: "create_deferred", A: 2}, {K: "local", A: 2, B: 1}}}, run)
}

func TestRegLocalAddAclDelete(t *testing.T) {
	outerT = t
	vstat.One(t, prop, Case{Seed: 7, Ops: []Op{{K: "space_create"}, {K: "create_eager"}, {K: "local", A: 1}, {K: "snapshot", A: 1}, {K: "acl", A: 1}, {K: "remote", A: 2}, {K: "delete"}}}, run)
}

func TestRegDeleteLongTree(t *testing.T) {
	outerT = t
	vstat.One(t, prop, Case{Seed: 9, Ops: []Op{{K: "space_create"}, {K: "create_eager"}, {K: "local", A: 1}, {K: "bulk", A: 3}, {K: "delete"}}}, run)
}

func TestRegBulkSync(t *testing.T) {
	outerT = t
	vstat.One(t, prop, Case{Seed: 11, Ops: []Op{{K: "space_create"}, {K: "create_eager"}, {K: "local", A: 1}, {K: "bulk_sync", A: 4}, {K: "local", A: 1}}}, run)
}

func TestRegFetchLargeTree(t *testing.T) {
	outerT = t
	vstat.One(t, prop, Case{Seed: 10, Ops: []Op{{K: "space_create"}, {K: "create_deferred", A: 262}, {K: "local", A: 1}}}, run)
}
