package c17

// The world of one case: a relay engine, 0..3 client engines, harness links, the
// reference interest table, and settle() — the single place where what the engines did
// during a step is compared with what the statement allows.

import (
	"bytes"
	"context"
	"encoding/binary"
	"fmt"
	"sort"
	"strings"
	"sync"
	"testing/synctest"
	"time"

	"github.com/prometheus/client_golang/prometheus"
	"storj.io/drpc"

	"github.com/anyproto/any-sync/app"
	"github.com/anyproto/any-sync/commonspace/pubsub"
	"github.com/anyproto/any-sync/commonspace/pubsub/pubsubproto"
	"github.com/anyproto/any-sync/net/peer"
	"github.com/anyproto/any-sync/net/streampool"
	"github.com/anyproto/any-sync/testutil/accounttest"
	"github.com/anyproto/any-sync/util/crypto"
)

const skew = 5 * time.Minute

var spaceNames = []string{"s0", "s1", "s0/a"} // the last one is malformed on purpose

const nGoodSpaces = 2

type counts interface{ VerifCounts() map[string]int }
type tagStreams interface {
	VerifTagStreams(spaceId, pattern string) int
}

type engine struct {
	idx  int // client index, -1 for the relay
	acc  *acct
	svc  pubsub.Service
	app  *app.App
	reg  *prometheus.Registry
	peer *fakePeer // clients: their handle on the relay

	subs            []*lsub
	delivered       map[string]bool // msg ids that reached (or, own ids, originate from) this client's handlers
	seenUndelivered map[string]bool // msg ids that arrived on messages that were (rightly) dropped
	statuses        int
}

type lsub struct {
	id      int
	client  int
	space   string
	pattern string
	alive   bool
	unsub   func()
}

type call struct {
	sub     int
	space   string
	topic   string
	account string
	payload string
}

type localPub struct {
	client  int
	space   string
	topic   string
	payload string
}

type sset map[int]map[string]map[string]bool // link id -> space -> pattern

func (s sset) add(l int, space, pat string) {
	if s[l] == nil {
		s[l] = map[string]map[string]bool{}
	}
	if s[l][space] == nil {
		s[l][space] = map[string]bool{}
	}
	s[l][space][pat] = true
}

func (s sset) del(l int, space, pat string) {
	if s[l] == nil || s[l][space] == nil {
		return
	}
	delete(s[l][space], pat)
	if len(s[l][space]) == 0 {
		delete(s[l], space)
	}
	if len(s[l]) == 0 {
		delete(s, l)
	}
}

func (s sset) delSpace(l int, space string) {
	if s[l] == nil {
		return
	}
	delete(s[l], space)
	if len(s[l]) == 0 {
		delete(s, l)
	}
}

func (s sset) matches(l int, space, topic string) bool {
	for p := range s[l][space] {
		if refMatch(p, topic) {
			return true
		}
	}
	return false
}

type world struct {
	c    Case
	nAcc int

	mu      sync.Mutex
	seq     int
	inLog   []frame
	outLog  []frame
	fwdLog  []frame
	calls   []call
	links   []*link
	members map[string]map[string]bool // space -> account id -> member
	gate    *gate                      // parks a subscribe in CheckMember (before the interest lock)
	tagGate *gate                      // parks a subscribe at the pool's AddTagsCtx (interest recorded, tags not yet)
	wg      sync.WaitGroup

	relay   *engine
	clients []*engine
	n2Peer  *fakePeer

	def, may sset
	everTags map[[2]string]bool
	seenIds  map[string]bool
	pastPubs []*pubsubproto.Publish
	msgCtr   uint64
	subCtr   int
	localPub *localPub
	light    bool // sweeps: skip the per-step counter comparison
	probing  bool // after teardown: probe publishes

	classes    map[string]bool
	nonTrivial bool
	hooked     bool
	poolGated  bool
	events     int
}

func violation(f string, a ...any) error { return fmt.Errorf(f, a...) }

// ---- logging taps (called from engine goroutines) ------------------------------------------

func (w *world) logIn(l *link, m *pubsubproto.PubSubMessage) {
	w.mu.Lock()
	w.seq++
	w.inLog = append(w.inLog, frame{w.seq, l, m})
	w.mu.Unlock()
}
func (w *world) logOut(l *link, m *pubsubproto.PubSubMessage) {
	w.mu.Lock()
	w.seq++
	w.outLog = append(w.outLog, frame{w.seq, l, m})
	w.mu.Unlock()
}
func (w *world) logFwd(l *link, m *pubsubproto.PubSubMessage) {
	w.mu.Lock()
	w.seq++
	w.fwdLog = append(w.fwdLog, frame{w.seq, l, m})
	w.mu.Unlock()
}

func (w *world) isMemberAccount(space, account string) bool {
	w.mu.Lock()
	defer w.mu.Unlock()
	m, known := w.members[space]
	if !known {
		return true // a space the harness does not manage: everybody passes (worst case)
	}
	return m[account]
}

func (w *world) isMember(space string, acc int) bool {
	if acc < 0 {
		return false
	}
	return w.isMemberAccount(space, accts[acc].id)
}

func (w *world) setMember(space string, acc int, v bool) {
	w.mu.Lock()
	w.members[space][accts[acc].id] = v
	w.mu.Unlock()
}

// ---- construction ----------------------------------------------------------------------------

func engineConfig() pubsub.Config {
	return pubsub.Config{
		// rate limiting, pattern caps and queue bounds are legitimate reasons for
		// non-delivery; they are configured out of the way, not modelled
		PublishRps:           1e9,
		PublishBurst:         1 << 30,
		MaxPatternsPerSpace:  1 << 20,
		MaxPatternsPerStream: 1 << 24,
		WriteQueueSize:       1 << 10,
		DispatchQueueSize:    1 << 12,
		MaxTimestampSkew:     skew,
		ResyncInterval:       20 * time.Second,
		DialQueueWorkers:     1, // one sender: frames of one client leave in call order
		DialQueueSize:        1 << 12,
	}
}

func newWorld(c Case, nClients, nAcc int) (*world, error) {
	accounts()
	w := &world{
		c: c, nAcc: nAcc,
		members:  map[string]map[string]bool{},
		def:      sset{},
		may:      sset{},
		everTags: map[[2]string]bool{},
		seenIds:  map[string]bool{},
		classes:  map[string]bool{},
	}
	for s := 0; s < nGoodSpaces; s++ {
		w.members[spaceNames[s]] = map[string]bool{}
		for a := 0; a < nAcc; a++ {
			v := true
			if s < len(c.Members) && a < len(c.Members[s]) {
				v = c.Members[s][a]
			}
			w.members[spaceNames[s]][accts[a].id] = v
		}
	}
	w.n2Peer = &fakePeer{id: n2Acc.peerId, ctx: context.Background(), done: make(chan struct{})}
	w.n2Peer.open = func() (drpc.Stream, error) {
		l := w.newLink(lkFwd, -1, -1, "", nil)
		return cliEnd{l}, nil
	}
	var err error
	w.relay, err = w.newEngine(-1, relayAcc, pubsub.Deps{
		Membership: membership{w}, Relay: relayStub{w}, Config: engineConfig(),
	})
	if err != nil {
		return w, err
	}
	_, w.hooked = w.relay.svc.(counts)
	if pw, ok := w.relay.svc.(poolWrapper); ok {
		pw.VerifWrapPool(func(p streampool.StreamPool) streampool.StreamPool { return &gatedPool{StreamPool: p, w: w} })
		w.poolGated = true
	}
	for i := 0; i < nClients; i++ {
		i := i
		p := &fakePeer{id: relayAcc.peerId, ctx: context.Background(), done: make(chan struct{})}
		p.open = func() (drpc.Stream, error) {
			l := w.newLink(lkClient, i, i, accts[i].peerId, accts[i].ident)
			w.serve(l)
			return cliEnd{l}, nil
		}
		var e *engine
		e, err = w.newEngine(i, accts[i], pubsub.Deps{
			Membership: membership{w}, Peers: peersStub{p}, Config: engineConfig(),
			OnStatus: func(string, *pubsubproto.Status) {
				w.mu.Lock()
				w.clients[i].statuses++
				w.mu.Unlock()
			},
		})
		if e != nil {
			e.peer = p
			w.clients = append(w.clients, e)
		}
		if err != nil {
			return w, err
		}
	}
	return w, nil
}

func (w *world) newEngine(idx int, a *acct, deps pubsub.Deps) (*engine, error) {
	e := &engine{idx: idx, acc: a, reg: prometheus.NewRegistry(), delivered: map[string]bool{}, seenUndelivered: map[string]bool{}}
	deps.Metric = &metricStub{reg: e.reg}
	e.svc = pubsub.New(deps)
	e.app = new(app.App)
	e.app.Register(accounttest.NewWithAcc(a.keys)).Register(e.svc)
	if err := e.app.Start(context.Background()); err != nil {
		return nil, fmt.Errorf("HARNESS: app start: %w", err)
	}
	return e, nil
}

func (w *world) newLink(kind, acc, client int, peerId string, ident []byte) *link {
	l := &link{w: w, kind: kind, acc: acc, client: client,
		toSrv: make(chan []byte, 64), toCli: make(chan []byte, 64), closed: make(chan struct{})}
	sctx := context.WithValue(context.Background(), linkKey{}, l)
	sctx = peer.CtxWithPeerId(sctx, peerId)
	if ident != nil {
		sctx = peer.CtxWithIdentity(sctx, ident)
	}
	l.srvCtx, l.srvCancel = context.WithCancel(sctx)
	remote := relayAcc
	if kind == lkFwd {
		remote = n2Acc
	}
	cctx := peer.CtxWithIdentity(peer.CtxWithPeerId(context.Background(), remote.peerId), remote.ident)
	l.cliCtx, l.cliCancel = context.WithCancel(cctx)
	w.mu.Lock()
	l.id = len(w.links)
	w.links = append(w.links, l)
	w.mu.Unlock()
	return l
}

func (w *world) serve(l *link) {
	w.wg.Add(1)
	go func() {
		defer w.wg.Done()
		_ = w.relay.svc.HandleStream(srvEnd{l})
	}()
}

// openRaw opens a harness-driven inbound stream at the relay.
// acc >= 0: proven identity of that account; acc == -1: no proven identity; node: the
// other responsible node.
func (w *world) openRaw(acc int, node bool) *link {
	var l *link
	switch {
	case node:
		l = w.newLink(lkNodeIn, -1, -1, n2Acc.peerId, n2Acc.ident)
	case acc < 0:
		l = w.newLink(lkRaw, -1, -1, "anon-peer", nil)
	default:
		l = w.newLink(lkRaw, acc, -1, accts[acc].peerId, accts[acc].ident)
	}
	w.serve(l)
	return l
}

func (w *world) push(l *link, m *pubsubproto.PubSubMessage) error {
	b, cp, err := encode(m)
	if err != nil {
		return fmt.Errorf("HARNESS: encode: %w", err)
	}
	w.logIn(l, cp)
	select {
	case l.toSrv <- b:
		return nil
	default:
		return fmt.Errorf("HARNESS: link %d inbox full", l.id)
	}
}

func (w *world) allLinks() []*link {
	w.mu.Lock()
	defer w.mu.Unlock()
	return append([]*link(nil), w.links...)
}

func (w *world) liveRaw() []*link {
	var out []*link
	for _, l := range w.allLinks() {
		if (l.kind == lkRaw || l.kind == lkNodeIn) && !l.isClosed() {
			out = append(out, l)
		}
	}
	return out
}

func (w *world) clientLinks(ci int) []*link {
	var out []*link
	for _, l := range w.allLinks() {
		if l.kind == lkClient && l.client == ci && !l.isClosed() {
			out = append(out, l)
		}
	}
	return out
}

func (w *world) shutdown() {
	for _, l := range w.allLinks() {
		l.close()
	}
	w.mu.Lock()
	for _, g := range []*gate{w.gate, w.tagGate} {
		if g != nil && g.ch != nil {
			select {
			case <-g.ch:
			default:
				close(g.ch)
			}
		}
	}
	w.gate, w.tagGate = nil, nil
	w.mu.Unlock()
	synctest.Wait()
	for _, e := range w.clients {
		if e != nil && e.app != nil {
			_ = e.app.Close(context.Background())
		}
	}
	if w.relay != nil && w.relay.app != nil {
		_ = w.relay.app.Close(context.Background())
	}
	// a client closing may have dialled once more
	for _, l := range w.allLinks() {
		l.close()
	}
	w.wg.Wait()
	synctest.Wait()
}

// ---- signing (the wire format documented in sign.go, re-implemented by the harness) ----------

func signData(p *pubsubproto.Publish) []byte {
	buf := []byte("anysync:pubsub:v1")
	for _, f := range [][]byte{[]byte(p.SpaceId), []byte(p.Topic), p.MsgId, []byte(p.KeyId)} {
		buf = binary.LittleEndian.AppendUint32(buf, uint32(len(f)))
		buf = append(buf, f...)
	}
	buf = binary.LittleEndian.AppendUint64(buf, uint64(p.TimestampMilli))
	return append(buf, p.Payload...)
}

func signPub(a *acct, p *pubsubproto.Publish) {
	p.Identity = a.ident
	sig, err := a.keys.SignKey.Sign(signData(p))
	if err != nil {
		panic(err)
	}
	p.Signature = sig
}

func sigValid(p *pubsubproto.Publish) bool {
	k, err := crypto.UnmarshalEd25519PublicKeyProto(p.Identity)
	if err != nil {
		return false
	}
	ok, err := k.Verify(signData(p), p.Signature)
	return err == nil && ok
}

func (w *world) newMsgId() []byte {
	w.msgCtr++
	id := make([]byte, 16)
	copy(id, "c17-")
	binary.BigEndian.PutUint64(id[8:], w.msgCtr)
	return id
}

func wrapPub(p *pubsubproto.Publish) *pubsubproto.PubSubMessage {
	return &pubsubproto.PubSubMessage{Content: &pubsubproto.PubSubMessage_Publish{Publish: p}}
}
func wrapSub(space string, pats []string) *pubsubproto.PubSubMessage {
	return &pubsubproto.PubSubMessage{Content: &pubsubproto.PubSubMessage_Subscribe{
		Subscribe: &pubsubproto.Subscribe{SpaceId: space, Topics: pats}}}
}
func wrapUnsub(space string, pats []string) *pubsubproto.PubSubMessage {
	return &pubsubproto.PubSubMessage{Content: &pubsubproto.PubSubMessage_Unsubscribe{
		Unsubscribe: &pubsubproto.Unsubscribe{SpaceId: space, Topics: pats}}}
}

func clonePub(p *pubsubproto.Publish) *pubsubproto.Publish {
	b, _ := p.MarshalVT()
	cp := &pubsubproto.Publish{}
	_ = cp.UnmarshalVT(b)
	return cp
}

func samePub(a, b *pubsubproto.Publish) bool {
	x, _ := a.MarshalVT()
	y, _ := b.MarshalVT()
	return bytes.Equal(x, y)
}

// ---- reference interest table ---------------------------------------------------------------

func spaceWellFormed(s string) bool { return s != "" && !strings.Contains(s, "/") }

func (w *world) modelSubscribe(l *link, sub *pubsubproto.Subscribe) {
	if l.isClosed() {
		return
	}
	// "member subscriptions": interest of a stream whose proven identity is not a space
	// member at subscribe time is never registered
	if l.acc < 0 || !w.isMember(sub.SpaceId, l.acc) {
		w.classes["subscribe-rejected-nonmember"] = true
		return
	}
	allValid := true
	for _, p := range sub.Topics {
		if !refValidPattern(p) {
			allValid = false
		}
	}
	for _, p := range sub.Topics {
		if !refValidPattern(p) {
			w.classes["subscribe-invalid-pattern"] = true
			continue
		}
		if w.def[l.id][sub.SpaceId][p] {
			w.classes["duplicate-subscribe"] = true
		}
		// the statement is silent on a malformed space id and on a frame mixing valid
		// and invalid patterns: the valid patterns MAY be registered
		if allValid && spaceWellFormed(sub.SpaceId) {
			w.def.add(l.id, sub.SpaceId, p)
			w.may.del(l.id, sub.SpaceId, p)
			w.classes[refShape(p)] = true
		} else if !w.def[l.id][sub.SpaceId][p] {
			w.may.add(l.id, sub.SpaceId, p)
			w.classes["subscribe-ambiguous"] = true
		}
		w.everTags[[2]string{sub.SpaceId, p}] = true
	}
}

func (w *world) modelUnsubscribe(l *link, u *pubsubproto.Unsubscribe) {
	if len(u.Topics) == 0 {
		if len(w.def[l.id][u.SpaceId]) > 0 {
			w.classes["unsubscribe-all"] = true
		}
		w.def.delSpace(l.id, u.SpaceId)
		w.may.delSpace(l.id, u.SpaceId)
		return
	}
	for _, p := range u.Topics {
		if w.def[l.id][u.SpaceId][p] {
			w.classes["unsubscribe"] = true
		}
		w.def.del(l.id, u.SpaceId, p)
		w.may.del(l.id, u.SpaceId, p)
	}
}

func (w *world) modelCloseLink(l *link) {
	if len(w.def[l.id]) > 0 {
		w.classes["stream-close-with-interest"] = true
	}
	delete(w.def, l.id)
	delete(w.may, l.id)
}

func (w *world) modelDropSpaceWhere(space string, drop func(l *link) bool) bool {
	any := false
	for _, l := range w.allLinks() {
		if (len(w.def[l.id][space]) > 0 || len(w.may[l.id][space]) > 0) && drop(l) {
			if len(w.def[l.id][space]) > 0 {
				any = true
			}
			w.def.delSpace(l.id, space)
			w.may.delSpace(l.id, space)
		}
	}
	return any
}

// ---- the step oracle ---------------------------------------------------------------------------

type pubEvent struct {
	f       *pubsubproto.Publish
	link    *link
	allowed map[int]bool // streams that may get a copy
	must    map[int]bool // streams that must get a copy
	fwdMax  int
	strict  bool
}

func (w *world) makeEvent(l *link, f *pubsubproto.Publish) *pubEvent {
	ev := &pubEvent{f: f, link: l, allowed: map[int]bool{}, must: map[int]bool{}}
	topicOK := refValidTopic(f.Topic)
	now := time.Now().UnixMilli()
	fresh := f.TimestampMilli != 0 && abs64(now-f.TimestampMilli) <= skew.Milliseconds()
	key := string(f.MsgId)
	replay := w.seenIds[key]
	w.seenIds[key] = true
	valid := sigValid(f)

	owner := ""
	if topicOK {
		owner = refOwner(f.Topic)
	}
	bound := l.acc >= 0 && len(f.Identity) > 0 && bytes.Equal(f.Identity, accts[l.acc].ident)
	conds := topicOK && bound && w.isMember(f.SpaceId, l.acc) && (owner == "" || owner == accts[l.acc].id)

	mayGet, mustGet := map[int]bool{}, map[int]bool{}
	if topicOK {
		for _, x := range w.allLinks() {
			if x.isClosed() {
				continue
			}
			if w.def.matches(x.id, f.SpaceId, f.Topic) {
				mustGet[x.id] = true
				mayGet[x.id] = true
			} else if w.may.matches(x.id, f.SpaceId, f.Topic) {
				mayGet[x.id] = true
			}
		}
	}
	switch {
	case f.Relayed && l.kind == lkNodeIn:
		// input relayed by the other responsible node: authorised there. The statement
		// only gives: matching streams at most, one copy, never forwarded again.
		ev.allowed = mayGet
		w.classes["publish-relayed-from-node"] = true
	case f.Relayed:
		// a non-node peer setting the relayed flag gains nothing
		if conds {
			ev.allowed = mayGet
		}
		w.classes["publish-relayed-flag-from-client"] = true
	default:
		if conds {
			ev.allowed = mayGet
			ev.fwdMax = 1
			ev.strict = valid && fresh && !replay
			if ev.strict {
				ev.must = mustGet
			}
		}
	}
	// classes (the probes after teardown are not counted)
	if !f.Relayed && !w.probing {
		switch {
		case !topicOK:
			w.classes["publish-malformed-topic"] = true
		case l.acc < 0 || len(f.Identity) == 0:
			w.classes["publish-no-proven-identity"] = true
		case !bound:
			w.classes["publish-wrong-identity"] = true
		case !w.isMember(f.SpaceId, l.acc):
			w.classes["publish-non-member"] = true
		case owner != "" && owner != accts[l.acc].id:
			w.classes["publish-unowned-acc-topic"] = true
		case !valid:
			w.classes["publish-forged-signature"] = true
		case replay:
			w.classes["publish-replayed-id"] = true
		case !fresh:
			w.classes["publish-stale-or-zero-timestamp"] = true
		default:
			w.classes["publish-clean"] = true
			if owner != "" {
				w.classes["publish-owned-acc-topic"] = true
			}
		}
	}
	if ev.strict && len(ev.must) >= 1 {
		// non-trivial: the topic matches a live pattern of one stream and fails a live
		// pattern of a different stream
		for m := range ev.must {
			for _, x := range w.allLinks() {
				if x.id == m || x.isClosed() {
					continue
				}
				for p := range w.def[x.id][f.SpaceId] {
					if !refMatch(p, f.Topic) {
						w.nonTrivial = true
					}
				}
			}
		}
		if len(ev.must) >= 2 {
			w.classes["fanout-to-several-streams"] = true
		}
	}
	return ev
}

func abs64(x int64) int64 {
	if x < 0 {
		return -x
	}
	return x
}

// settle lets every engine goroutine come to rest, then compares the step's observations
// with the reference.
func (w *world) settle() error {
	synctest.Wait()
	w.mu.Lock()
	in, out, fwd, calls := w.inLog, w.outLog, w.fwdLog, w.calls
	w.inLog, w.outLog, w.fwdLog, w.calls = nil, nil, nil, nil
	lp := w.localPub
	w.localPub = nil
	w.mu.Unlock()

	var ev *pubEvent
	for _, fr := range in {
		switch {
		case fr.msg.GetSubscribe() != nil:
			w.modelSubscribe(fr.link, fr.msg.GetSubscribe())
		case fr.msg.GetUnsubscribe() != nil:
			w.modelUnsubscribe(fr.link, fr.msg.GetUnsubscribe())
		case fr.msg.GetPublish() != nil:
			if ev != nil {
				return fmt.Errorf("HARNESS: two publish events in one step")
			}
			ev = w.makeEvent(fr.link, fr.msg.GetPublish())
			w.pastPubs = append(w.pastPubs, clonePub(fr.msg.GetPublish()))
			w.events++
		}
	}

	// --- stream level: what the relay wrote to subscriber streams
	got := map[int]int{}
	var toClients []frame
	for _, fr := range out {
		if st := fr.msg.GetStatus(); st != nil {
			w.classes["status-"+st.Code.String()] = true
			continue
		}
		p := fr.msg.GetPublish()
		if p == nil {
			return violation("relay wrote a frame that is neither publish nor status to stream %d: %v", fr.link.id, fr.msg)
		}
		if fr.link.kind == lkNodeIn {
			fwd = append(fwd, fr) // any stream to the other node carries forwards
			continue
		}
		if ev == nil {
			return violation("stream %d received a publish (topic %q) although nothing was published in this step", fr.link.id, p.Topic)
		}
		if !samePub(p, ev.f) {
			return violation("stream %d received a message that differs from the published one: got %v, published %v", fr.link.id, p, ev.f)
		}
		got[fr.link.id]++
		if fr.link.kind == lkClient {
			toClients = append(toClients, fr)
		}
	}
	if ev != nil {
		desc := fmt.Sprintf("publish space=%q topic=%q relayed=%v on stream %d (account %d)", ev.f.SpaceId, ev.f.Topic, ev.f.Relayed, ev.link.id, ev.link.acc)
		ids := make([]int, 0, len(got))
		for id := range got {
			ids = append(ids, id)
		}
		sort.Ints(ids)
		for _, id := range ids {
			if got[id] > 1 {
				return violation("%s: stream %d received %d copies", desc, id, got[id])
			}
			if !ev.allowed[id] {
				return violation("%s: reached stream %d which must not receive it (patterns there: %v; publisher member=%v; topic well formed=%v)",
					desc, id, w.patternsOf(id, ev.f.SpaceId), w.isMember(ev.f.SpaceId, ev.link.acc), refValidTopic(ev.f.Topic))
			}
		}
		must := make([]int, 0, len(ev.must))
		for id := range ev.must {
			must = append(must, id)
		}
		sort.Ints(must)
		for _, id := range must {
			if got[id] == 0 {
				return violation("%s: did not reach stream %d whose patterns %v match", desc, id, w.patternsOf(id, ev.f.SpaceId))
			}
		}
		if len(got) > 0 {
			w.classes["delivered-to-stream"] = true
			if ev.f.Relayed && ev.link.kind == lkNodeIn {
				w.classes["relayed-input-delivered"] = true
			}
		}
	}

	// --- forwarding to the other responsible node
	nf := 0
	for _, fr := range fwd {
		p := fr.msg.GetPublish()
		if p == nil {
			continue // status / interest frames to the node are not in scope
		}
		nf++
		if ev == nil {
			return violation("a publish (topic %q) was forwarded to the other node although nothing was published", p.Topic)
		}
		if ev.f.Relayed {
			return violation("relayed input (topic %q) was forwarded again", p.Topic)
		}
		if ev.fwdMax == 0 {
			return violation("rejected publish (topic %q, stream %d) was forwarded to the other node", p.Topic, ev.link.id)
		}
		want := clonePub(ev.f)
		want.Relayed = true
		if !samePub(p, want) {
			return violation("forwarded message differs from the published one (or lacks the relayed flag): %v", p)
		}
	}
	if nf > 1 {
		return violation("publish forwarded %d times to the other node", nf)
	}
	if nf == 1 && !w.probing {
		w.classes["forwarded-once"] = true
	}

	// --- handler level
	if err := w.checkHandlers(ev, lp, toClients, calls); err != nil {
		return err
	}
	if w.light {
		return nil
	}
	return w.checkCounters()
}

func (w *world) patternsOf(id int, space string) []string {
	var out []string
	for p := range w.def[id][space] {
		out = append(out, p)
	}
	for p := range w.may[id][space] {
		out = append(out, p+"(?)")
	}
	sort.Strings(out)
	return out
}

func (w *world) checkHandlers(ev *pubEvent, lp *localPub, toClients []frame, calls []call) error {
	type rng struct{ lo, hi int }
	exp := map[int]*rng{}
	bump := func(id, lo, hi int) {
		if exp[id] == nil {
			exp[id] = &rng{}
		}
		exp[id].lo += lo
		exp[id].hi += hi
	}
	subsOf := func(ci int, space, topic string) []*lsub {
		var out []*lsub
		if !refValidTopic(topic) {
			return nil
		}
		for _, s := range w.clients[ci].subs {
			if s.alive && s.space == space && refMatch(s.pattern, topic) {
				out = append(out, s)
			}
		}
		return out
	}
	var wantSpace, wantTopic, wantAccount, wantPayload string
	if lp != nil {
		// documented local delivery of the publisher's own message
		cl := w.clients[lp.client]
		lo := 0
		if w.isMember(lp.space, lp.client) {
			lo = 1
		}
		for _, s := range subsOf(lp.client, lp.space, lp.topic) {
			bump(s.id, lo, 1)
			w.classes["local-delivery"] = true
		}
		if ev != nil && ev.link.client == lp.client {
			cl.delivered[string(ev.f.MsgId)] = true
		}
		wantSpace, wantTopic, wantAccount, wantPayload = lp.space, lp.topic, cl.acc.id, lp.payload
	}
	if ev != nil {
		signer := accIndexByIdent(ev.f.Identity)
		acc := "?"
		if signer >= 0 {
			acc = accts[signer].id
		}
		wantSpace, wantTopic, wantAccount, wantPayload = ev.f.SpaceId, ev.f.Topic, acc, string(ev.f.Payload)
	}
	now := time.Now().UnixMilli()
	for _, fr := range toClients {
		g := fr.msg.GetPublish()
		ci := fr.link.client
		cl := w.clients[ci]
		matching := subsOf(ci, g.SpaceId, g.Topic)
		key := string(g.MsgId)
		if len(matching) == 0 {
			continue
		}
		signer := accIndexByIdent(g.Identity)
		owner := refOwner(g.Topic)
		var why string
		switch {
		case signer < 0 || signer >= w.nAcc || !w.isMember(g.SpaceId, signer):
			why = "handler-drop-nonmember-signer"
		case owner != "" && owner != accts[signer].id:
			why = "handler-drop-unowned-acc-topic"
		case !sigValid(g):
			why = "handler-drop-forged"
		case g.TimestampMilli != 0 && abs64(now-g.TimestampMilli) > skew.Milliseconds():
			why = "handler-drop-stale"
		case cl.delivered[key]:
			why = "handler-drop-replayed"
		}
		if why != "" && !cl.delivered[key] {
			cl.seenUndelivered[key] = true
		}
		switch {
		case why != "":
			w.classes[why] = true
			for _, s := range matching {
				bump(s.id, 0, 0)
			}
		case g.TimestampMilli == 0:
			// a message without timestamp: the statement does not decide
			for _, s := range matching {
				bump(s.id, 0, 1)
			}
		default:
			// an id seen before only on messages that never reached a handler (forged,
			// stale, unmatched at the time) is not a replay: the genuine message counts
			if cl.seenUndelivered[key] {
				w.classes["handler-delivered-after-undelivered-twin"] = true
			}
			cl.delivered[key] = true
			w.classes["handler-delivered"] = true
			for _, s := range matching {
				bump(s.id, 1, 1)
			}
		}
	}
	n := map[int]int{}
	for _, c := range calls {
		n[c.sub]++
		if c.space != wantSpace || c.topic != wantTopic || c.account != wantAccount || c.payload != wantPayload {
			return violation("handler of subscription %d invoked with (%q,%q,%s,%q) but the step's message is (%q,%q,%s,%q)",
				c.sub, c.space, c.topic, c.account, c.payload, wantSpace, wantTopic, wantAccount, wantPayload)
		}
	}
	for _, cl := range w.clients {
		for _, s := range cl.subs {
			r := exp[s.id]
			if r == nil {
				r = &rng{}
			}
			if n[s.id] < r.lo || n[s.id] > r.hi {
				what := "nothing"
				if ev != nil {
					what = fmt.Sprintf("publish space=%q topic=%q from stream %d", ev.f.SpaceId, ev.f.Topic, ev.link.id)
				} else if lp != nil {
					what = fmt.Sprintf("local publish space=%q topic=%q", lp.space, lp.topic)
				}
				return violation("client %d subscription %d (space %q pattern %q alive=%v): handler ran %d times, reference allows %d..%d (%s)",
					cl.idx, s.id, s.space, s.pattern, s.alive, n[s.id], r.lo, r.hi, what)
			}
		}
	}
	return nil
}

// ---- bookkeeping comparison (gauges: exported; counts: verif hook) -------------------------------

func inRange(name string, got, lo, hi int) error {
	if got < lo || got > hi {
		if lo == hi {
			return violation("bookkeeping: %s = %d, reference interest table gives %d", name, got, lo)
		}
		return violation("bookkeeping: %s = %d, reference interest table gives %d..%d", name, got, lo, hi)
	}
	return nil
}

type tally struct {
	spaces, tags, refs, nodes, links int
}

func tallyOf(sets ...sset) tally {
	bySpace := map[string]map[string]bool{}
	links := map[int]bool{}
	refs := map[[3]string]bool{}
	for _, s := range sets {
		for l, sp := range s {
			for space, pats := range sp {
				for p := range pats {
					if bySpace[space] == nil {
						bySpace[space] = map[string]bool{}
					}
					bySpace[space][p] = true
					links[l] = true
					refs[[3]string{fmt.Sprint(l), space, p}] = true
				}
			}
		}
	}
	t := tally{spaces: len(bySpace), links: len(links), refs: len(refs)}
	for _, pats := range bySpace {
		t.tags += len(pats)
		t.nodes += refPrefixes(pats)
	}
	return t
}

func (w *world) checkCounters() error {
	lo, hi := tallyOf(w.def), tallyOf(w.def, w.may)
	live := 0
	for _, l := range w.allLinks() {
		if !l.isClosed() {
			live++
		}
	}
	tc, err := gauge(w.relay.reg, "pubsub_streampool_tag_count")
	if err != nil {
		return fmt.Errorf("HARNESS: %w", err)
	}
	sc, err := gauge(w.relay.reg, "pubsub_streampool_stream_count")
	if err != nil {
		return fmt.Errorf("HARNESS: %w", err)
	}
	if err = inRange("relay pool tag_count", tc, lo.tags, hi.tags); err != nil {
		return err
	}
	if err = inRange("relay pool stream_count", sc, live, live); err != nil {
		return err
	}
	if vc, ok := w.relay.svc.(counts); ok {
		c := vc.VerifCounts()
		for _, chk := range []struct {
			name   string
			lo, hi int
		}{
			{"remote_spaces", lo.spaces, hi.spaces},
			{"remote_patterns", lo.tags, hi.tags},
			{"remote_refs", lo.refs, hi.refs},
			{"remote_nodes", lo.nodes, hi.nodes},
			{"streams", lo.links, hi.links},
			{"stream_patterns", lo.refs, hi.refs},
			{"stream_total", c["stream_patterns"], c["stream_patterns"]},
			{"local_subs", 0, 0},
			{"local_sub_spaces", 0, 0},
		} {
			if err = inRange("relay "+chk.name, c[chk.name], chk.lo, chk.hi); err != nil {
				return err
			}
		}
		w.classes["internal-counts-checked"] = true
	}
	if ts, ok := w.relay.svc.(tagStreams); ok {
		for tag := range w.everTags {
			if !spaceWellFormed(tag[0]) {
				continue // "s0/a" + "*" and "s0" + "a/*" spell the same tag: not attributable
			}
			l, h := 0, 0
			for id := range w.def {
				if w.def[id][tag[0]][tag[1]] {
					l++
				}
			}
			h = l
			for id := range w.may {
				if w.may[id][tag[0]][tag[1]] {
					h++
				}
			}
			if err = inRange(fmt.Sprintf("relay pool.Streams(tag %s/%s)", tag[0], tag[1]), ts.VerifTagStreams(tag[0], tag[1]), l, h); err != nil {
				return err
			}
		}
	}
	for _, cl := range w.clients {
		bySpace := map[string]map[string]bool{}
		nsubs := 0
		for _, s := range cl.subs {
			if s.alive {
				nsubs++
				if bySpace[s.space] == nil {
					bySpace[s.space] = map[string]bool{}
				}
				bySpace[s.space][s.pattern] = true
			}
		}
		pats, nodes := 0, 0
		for _, m := range bySpace {
			pats += len(m)
			nodes += refPrefixes(m)
		}
		sc, err := gauge(cl.reg, "pubsub_streampool_stream_count")
		if err != nil {
			return fmt.Errorf("HARNESS: %w", err)
		}
		name := fmt.Sprintf("client %d ", cl.idx)
		if err = inRange(name+"pool stream_count", sc, len(w.clientLinks(cl.idx)), len(w.clientLinks(cl.idx))); err != nil {
			return err
		}
		if vc, ok := cl.svc.(counts); ok {
			c := vc.VerifCounts()
			for _, chk := range []struct {
				name string
				want int
			}{
				{"local_subs", nsubs}, {"local_patterns", pats}, {"local_nodes", nodes},
				{"local_sub_spaces", len(bySpace)}, {"local_trie_spaces", len(bySpace)}, {"local_topic_spaces", len(bySpace)},
				{"local_topic_sum", pats},
				{"remote_spaces", 0}, {"streams", 0}, {"remote_nodes", 0},
			} {
				if err = inRange(name+chk.name, c[chk.name], chk.want, chk.want); err != nil {
					return err
				}
			}
		}
	}
	return nil
}
