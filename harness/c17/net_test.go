package c17

// Harness-owned network: in-memory links standing in for DRPC streams (carrying the
// handshake-proven peer id / identity in their context, as secureservice does), fake
// peers whose "dial" creates such links, and the stub components the engine needs.

import (
	"bytes"
	"context"
	"crypto/sha256"
	"errors"
	"fmt"
	"io"
	"sync"
	"sync/atomic"
	"time"

	"github.com/prometheus/client_golang/prometheus"
	"go.uber.org/zap"
	"storj.io/drpc"

	"github.com/anyproto/any-sync/app"
	"github.com/anyproto/any-sync/commonspace/object/accountdata"
	"github.com/anyproto/any-sync/commonspace/pubsub/pubsubproto"
	"github.com/anyproto/any-sync/metric"
	"github.com/anyproto/any-sync/net/peer"
	"github.com/anyproto/any-sync/net/streampool"
	"github.com/anyproto/any-sync/util/crypto"
)

// ---- deterministic accounts -----------------------------------------------------------

type acct struct {
	keys   *accountdata.AccountKeys
	pub    crypto.PubKey
	ident  []byte // marshalled identity, as carried in ctx and in Publish.Identity
	id     string // account id (pub.Account())
	peerId string
}

func detKey(label string) crypto.PrivKey {
	seed := sha256.Sum256([]byte("verif-c17|" + label))
	k, _, err := crypto.GenerateEd25519Key(bytes.NewReader(seed[:]))
	if err != nil {
		panic(err)
	}
	return k
}

func newAcct(label string) *acct {
	keys := accountdata.New(detKey(label+"|peer"), detKey(label+"|sign"))
	pub := keys.SignKey.GetPublic()
	ident, err := pub.Marshall()
	if err != nil {
		panic(err)
	}
	return &acct{keys: keys, pub: pub, ident: ident, id: pub.Account(), peerId: keys.PeerId}
}

const maxAcc = 4

var (
	acctOnce sync.Once
	accts    []*acct // 0..maxAcc-1 user accounts
	relayAcc *acct
	n2Acc    *acct
)

func accounts() {
	acctOnce.Do(func() {
		for i := 0; i < maxAcc; i++ {
			accts = append(accts, newAcct(fmt.Sprintf("acc%d", i)))
		}
		relayAcc = newAcct("relay")
		n2Acc = newAcct("node2")
	})
}

func accIndexByIdent(ident []byte) int {
	for i, a := range accts {
		if bytes.Equal(a.ident, ident) {
			return i
		}
	}
	return -1
}

// ---- links ------------------------------------------------------------------------------

const (
	lkRaw    = iota // harness <-> relay, harness plays a client
	lkClient        // real client engine <-> relay
	lkNodeIn        // harness plays the other responsible node, inbound at the relay
	lkFwd           // relay -> other responsible node (outbound), harness is the sink
)

type linkKey struct{}

type link struct {
	w      *world
	id     int
	kind   int
	acc    int // proven account (index into accts), -1: no proven identity
	client int // client index for lkClient, else -1

	srvCtx    context.Context // context of the relay-side end
	srvCancel context.CancelFunc
	cliCtx    context.Context // context of the client-side end
	cliCancel context.CancelFunc

	toSrv  chan []byte
	toCli  chan []byte
	closed chan struct{}
	once   sync.Once

	failSend atomic.Bool // relay-side MsgSend fails (write error)
}

func (l *link) close() {
	l.once.Do(func() {
		close(l.closed)
		l.srvCancel()
		l.cliCancel()
	})
}

func (l *link) isClosed() bool {
	select {
	case <-l.closed:
		return true
	default:
		return false
	}
}

type frame struct {
	seq  int
	link *link
	msg  *pubsubproto.PubSubMessage
}

func encode(msg drpc.Message) ([]byte, *pubsubproto.PubSubMessage, error) {
	m, ok := msg.(*pubsubproto.PubSubMessage)
	if !ok {
		return nil, nil, fmt.Errorf("unexpected message type %T", msg)
	}
	b, err := m.MarshalVT()
	if err != nil {
		return nil, nil, err
	}
	cp := &pubsubproto.PubSubMessage{}
	if err = cp.UnmarshalVT(b); err != nil {
		return nil, nil, err
	}
	return b, cp, nil
}

func recvFrom(ch chan []byte, closed chan struct{}, msg drpc.Message) error {
	var b []byte
	select {
	case b = <-ch:
	default:
		select {
		case b = <-ch:
		case <-closed:
			return io.EOF
		}
	}
	m, ok := msg.(*pubsubproto.PubSubMessage)
	if !ok {
		return fmt.Errorf("unexpected message type %T", msg)
	}
	return m.UnmarshalVT(b)
}

// srvEnd is the end the relay serves (HandleStream) for raw / client / node-in links.
type srvEnd struct{ l *link }

func (e srvEnd) Context() context.Context { return e.l.srvCtx }
func (e srvEnd) CloseSend() error         { return nil }
func (e srvEnd) Close() error             { e.l.close(); return nil }
func (e srvEnd) MsgRecv(msg drpc.Message, _ drpc.Encoding) error {
	return recvFrom(e.l.toSrv, e.l.closed, msg)
}
func (e srvEnd) MsgSend(msg drpc.Message, _ drpc.Encoding) error {
	l := e.l
	if l.isClosed() {
		return io.ErrClosedPipe
	}
	if l.failSend.Load() {
		return errors.New("harness: write error")
	}
	b, cp, err := encode(msg)
	if err != nil {
		return err
	}
	l.w.logOut(l, cp)
	if l.kind == lkClient {
		select {
		case l.toCli <- b:
		case <-l.closed:
			return io.ErrClosedPipe
		}
	}
	return nil
}

// cliEnd is the dialing end: a real client engine (lkClient) or the relay itself (lkFwd).
type cliEnd struct{ l *link }

func (e cliEnd) Context() context.Context { return e.l.cliCtx }
func (e cliEnd) CloseSend() error         { return nil }
func (e cliEnd) Close() error             { e.l.close(); return nil }
func (e cliEnd) MsgRecv(msg drpc.Message, _ drpc.Encoding) error {
	return recvFrom(e.l.toCli, e.l.closed, msg)
}
func (e cliEnd) MsgSend(msg drpc.Message, _ drpc.Encoding) error {
	l := e.l
	if l.isClosed() {
		return io.ErrClosedPipe
	}
	b, cp, err := encode(msg)
	if err != nil {
		return err
	}
	if l.kind == lkFwd {
		l.w.logFwd(l, cp)
		return nil
	}
	l.w.logIn(l, cp)
	select {
	case l.toSrv <- b:
	case <-l.closed:
		return io.ErrClosedPipe
	}
	return nil
}

// ---- fake peers -------------------------------------------------------------------------

type fakePeer struct {
	id   string
	ctx  context.Context
	open func() (drpc.Stream, error)
	done chan struct{}
}

func (p *fakePeer) Id() string                                               { return p.id }
func (p *fakePeer) Context() context.Context                                 { return p.ctx }
func (p *fakePeer) AcquireDrpcConn(context.Context) (drpc.Conn, error)       { return fakeConn{p}, nil }
func (p *fakePeer) ReleaseDrpcConn(context.Context, drpc.Conn)               {}
func (p *fakePeer) DoDrpc(_ context.Context, do func(drpc.Conn) error) error { return do(fakeConn{p}) }
func (p *fakePeer) IsClosed() bool                                           { return false }
func (p *fakePeer) CloseChan() <-chan struct{}                               { return p.done }
func (p *fakePeer) SetTTL(time.Duration)                                     {}
func (p *fakePeer) TryClose(time.Duration) (bool, error)                     { return false, nil }
func (p *fakePeer) Close() error                                             { return nil }

type fakeConn struct{ p *fakePeer }

func (c fakeConn) Close() error            { return nil }
func (c fakeConn) Closed() <-chan struct{} { return c.p.done }
func (c fakeConn) Invoke(context.Context, string, drpc.Encoding, drpc.Message, drpc.Message) error {
	return errors.New("harness: unary rpc not supported")
}
func (c fakeConn) NewStream(context.Context, string, drpc.Encoding) (drpc.Stream, error) {
	return c.p.open()
}

var _ peer.Peer = (*fakePeer)(nil)

// ---- stub components ----------------------------------------------------------------------

// membership: the space ACL as the harness defines it. One table shared by the relay and
// the clients (both resolve the same ACL in production).
type membership struct{ w *world }

func (m membership) CheckMember(ctx context.Context, spaceId string, identity crypto.PubKey) error {
	w := m.w
	// gate: park a chosen stream's subscribe here (it is called before the engine takes
	// its interest lock), so the controller can close the stream underneath it
	if l, ok := ctx.Value(linkKey{}).(*link); ok {
		w.mu.Lock()
		g := w.gate
		var ch chan struct{}
		if g != nil && g.link == l && !g.hit {
			g.hit = true
			ch = g.ch
		}
		w.mu.Unlock()
		if ch != nil {
			<-ch
		}
	}
	if w.isMemberAccount(spaceId, identity.Account()) {
		return nil
	}
	return errors.New("not a member")
}

type gate struct {
	link *link
	ch   chan struct{}
	hit  bool
}

// gatedPool interposes on the relay engine's private pool (verif hook VerifWrapPool): a
// chosen stream's subscribe parks exactly at AddTagsCtx, i.e. after its interest has been
// recorded and before its routing tags exist; nothing is injected, the real pool call
// follows once the controller releases the gate.
type gatedPool struct {
	streampool.StreamPool
	w *world
}

func (p *gatedPool) AddTagsCtx(ctx context.Context, tags ...string) error {
	if l, ok := ctx.Value(linkKey{}).(*link); ok {
		w := p.w
		w.mu.Lock()
		g := w.tagGate
		var ch chan struct{}
		if g != nil && g.link == l && !g.hit {
			g.hit = true
			ch = g.ch
		}
		w.mu.Unlock()
		if ch != nil {
			<-ch
		}
	}
	return p.StreamPool.AddTagsCtx(ctx, tags...)
}

type poolWrapper interface {
	VerifWrapPool(func(streampool.StreamPool) streampool.StreamPool)
}

type relayStub struct{ w *world }

func (r relayStub) IsResponsible(string) bool { return true }
func (r relayStub) IsResponsibleNode(_ string, peerId string) bool {
	return peerId == n2Acc.peerId
}
func (r relayStub) OtherResponsiblePeers(context.Context, string) ([]peer.Peer, error) {
	return []peer.Peer{r.w.n2Peer}, nil
}

type peersStub struct{ p peer.Peer }

func (s peersStub) SpacePeers(context.Context, string) ([]peer.Peer, error) {
	return []peer.Peer{s.p}, nil
}

// metricStub hands the engine a registry; the private pool registers its gauges there
// (stream_count, tag_count), which is how the harness observes the pool without a hook.
type metricStub struct{ reg *prometheus.Registry }

func (m *metricStub) Registry() *prometheus.Registry                       { return m.reg }
func (m *metricStub) WrapDRPCHandler(h drpc.Handler) drpc.Handler          { return h }
func (m *metricStub) RequestLog(context.Context, string, ...zap.Field)     {}
func (m *metricStub) RegisterSyncMetric(string, metric.SyncMetric)         {}
func (m *metricStub) UnregisterSyncMetric(string)                          {}
func (m *metricStub) RegisterStreamPoolSyncMetric(metric.StreamPoolMetric) {}
func (m *metricStub) UnregisterStreamPoolSyncMetric()                      {}
func (m *metricStub) Init(*app.App) error                                  { return nil }
func (m *metricStub) Name() string                                         { return metric.CName }
func (m *metricStub) Run(context.Context) error                            { return nil }
func (m *metricStub) Close(context.Context) error                          { return nil }

var _ metric.Metric = (*metricStub)(nil)

func gauge(reg *prometheus.Registry, name string) (int, error) {
	fams, err := reg.Gather()
	if err != nil {
		return 0, err
	}
	for _, f := range fams {
		if f.GetName() == name {
			for _, m := range f.GetMetric() {
				return int(m.GetGauge().GetValue()), nil
			}
		}
	}
	return 0, fmt.Errorf("gauge %s not registered", name)
}
