// Package c17 decides property C17 (pub/sub delivers exactly to matching member
// subscriptions and leaks no state) by driving real pubsub engines (one relay, up to three
// clients) over harness-owned streams with generated operation sequences and comparing
// every step with a reference matcher and a reference interest table written from the
// statement.
package c17

import (
	"context"
	"encoding/json"
	"fmt"
	"os"
	"path/filepath"
	"runtime"
	"runtime/debug"
	"sort"
	"strings"
	"syscall"
	"testing"
	"testing/synctest"
	"time"

	"github.com/anyproto/any-sync/app/logger"
	"github.com/anyproto/any-sync/commonspace/pubsub"
	"github.com/anyproto/any-sync/commonspace/pubsub/pubsubproto"
	"github.com/anyproto/any-sync/util/crypto"

	"verif/harness/internal/vstat"
)

const prop = "C17"

func TestMain(m *testing.M) {
	// the engines log every frame at debug level; only process-fatal conditions matter here
	logger.SetNamedLevels([]logger.NamedLevel{{Name: "*", Level: "fatal"}})
	vstat.Main(m, prop)
}

// outerT is the *testing.T the synctest bubbles hang off (run is rapid-free).
var outerT *testing.T

// ---- case (plain data) -----------------------------------------------------------------------

// Segments are small integers: 0 "a", 1 "b", 2 "acc", 3 "*", 4 ">", 5 "" (empty),
// 6+i the account id of account i (so owned acc/ topics can be expressed without
// putting key material into the case).
const (
	sgA = iota
	sgB
	sgAcc
	sgStar
	sgTail
	sgEmpty
	sgOwn
)

const (
	kindSeq = iota
	kindValidate
	kindSweep
	kindRace
)

const (
	opRawOpen         = iota // Acc: account (mod nAcc+1, last = no proven identity); Flag&1: the other responsible node
	opRawSub                 // S: stream, Sp, P: patterns
	opRawUnsub               // S, Sp, P: patterns (none = all)
	opRawPub                 // S, Sp, P[0]: topic; Acc: signer (-1 = the stream's account); Rel, TS, Rep, Forge (1-7 tamper after signing, 8 forged twin first); P[1]: substitute topic
	opRawClose               // S; Flag: 0 peer closes, 1 stream context cancelled
	opCliSub                 // S: client, Sp, P[0]
	opCliUnsub               // S: client, Flag: which subscription
	opCliPub                 // S: client, Sp, P[0]
	opCliKill                // S: client: its stream to the relay breaks
	opEvict                  // Sp, Acc; Flag&1: membership revoked first
	opRevalidate             // Sp; Flag&1: account Acc loses membership first
	opSetMember              // Sp, Acc; Flag&1: new value
	opRelayCloseSpace        // Sp
	opCliCloseSpace          // S: client, Sp
	opAdvance                // Flag: 0 1s, 1 25s (a resync period), 2 skew+2s
	opCliSync                // S: client, Sp
	opSubCloseRace           // S: stream, Sp, P; Flag: 0 stream dies while its subscribe is parked before the interest lock, 1 peer closes meanwhile
	opSubTagRace             // S: stream, Sp, P; Flag%5: what happens while its subscribe is parked at tag registration (0 context cancel, 1 peer close, 2 evict its account, 3 close space, 4 nothing); Flag&8: no sibling
	nOps
)

var opNames = []string{"raw-open", "raw-subscribe", "raw-unsubscribe", "raw-publish", "raw-close", "client-subscribe",
	"client-unsubscribe", "client-publish", "client-stream-break", "evict", "revalidate", "set-member", "relay-close-space",
	"client-close-space", "advance", "client-sync-interest", "subscribe-vs-close", "subscribe-parked-at-tagging"}

type Op struct {
	K     int     `json:"k"`
	S     int     `json:"s,omitempty"`
	Sp    int     `json:"sp,omitempty"`
	Acc   int     `json:"acc,omitempty"`
	P     [][]int `json:"p,omitempty"`
	Rel   bool    `json:"rel,omitempty"`
	TS    int     `json:"ts,omitempty"`
	Rep   int     `json:"rep,omitempty"`
	Forge int     `json:"forge,omitempty"`
	Flag  int     `json:"flag,omitempty"`
}

type RaceStream struct {
	Acc        int       `json:"acc"`
	Frames     [][][]int `json:"frames"`      // subscribe frames (each a list of patterns), space alternates
	CloseAfter int       `json:"close_after"` // the closer fires after this many frames were pushed
	How        int       `json:"how"`         // 0 context cancel, 1 peer close, 2 write error on next delivery
}

type Case struct {
	Kind     int      `json:"kind"`
	NClients int      `json:"n_clients,omitempty"`
	NAcc     int      `json:"n_acc,omitempty"`
	Members  [][]bool `json:"members,omitempty"` // [space][account]
	Ops      []Op     `json:"ops,omitempty"`
	Tear     []int    `json:"tear,omitempty"`

	Str       string `json:"str,omitempty"` // kindValidate
	PatMaxLen int    `json:"pat_max_len,omitempty"`
	TopMaxLen int    `json:"top_max_len,omitempty"`

	Race   []RaceStream `json:"race,omitempty"`
	Topics [][]int      `json:"topics,omitempty"` // kindRace: published meanwhile
}

func mod(x, n int) int {
	if n <= 0 {
		return 0
	}
	x %= n
	if x < 0 {
		x += n
	}
	return x
}

func segString(s int) string {
	accounts()
	switch {
	case s < 0:
		return "a"
	case s == sgA:
		return "a"
	case s == sgB:
		return "b"
	case s == sgAcc:
		return "acc"
	case s == sgStar:
		return "*"
	case s == sgTail:
		return ">"
	case s == sgEmpty:
		return ""
	default:
		return accts[mod(s-sgOwn, maxAcc)].id
	}
}

func render(segs []int) string {
	parts := make([]string, len(segs))
	for i, s := range segs {
		parts[i] = segString(s)
	}
	return strings.Join(parts, "/")
}

func renderAll(ps [][]int) []string {
	out := make([]string, len(ps))
	for i, p := range ps {
		out[i] = render(p)
	}
	return out
}

func (c Case) dims() (nClients, nAcc int) {
	nAcc = c.NAcc
	if nAcc < 1 {
		nAcc = 1
	}
	if nAcc > maxAcc {
		nAcc = maxAcc
	}
	nClients = c.NClients
	if nClients < 0 {
		nClients = 0
	}
	if nClients > 3 {
		nClients = 3
	}
	if nClients > nAcc {
		nClients = nAcc
	}
	return
}

// ---- run -----------------------------------------------------------------------------------------

// A panic on one of the engine's own goroutines (stream read / write loop, dispatch loop,
// dial worker) cannot be recovered and kills the process; the running case is therefore
// flushed first and check.json names the fatal patterns, so the driver reports the death
// of a shard as a violation with this case as its replay file.
func writeCurrentCase(c Case) {
	dir := os.Getenv("VERIF_REPLAY_OUT")
	if dir == "" || os.Getenv("VERIF_REPLAY") != "" {
		return
	}
	os.MkdirAll(dir, 0o755)
	b, err := json.Marshal(map[string]any{"property": prop, "test": currentTest,
		"error": "the process died (panic / fatal error inside the pubsub engine) while this case was running", "case": c})
	if err != nil {
		return
	}
	tmp := filepath.Join(dir, ".current-case.tmp")
	if os.WriteFile(tmp, b, 0o644) == nil {
		os.Rename(tmp, filepath.Join(dir, "current-case.json"))
	}
}

func removeCurrentCase() {
	if dir := os.Getenv("VERIF_REPLAY_OUT"); dir != "" {
		os.Remove(filepath.Join(dir, "current-case.json"))
	}
}

// watchdog: an engine goroutine that panics while holding the engine's interest lock does
// not kill the process — the stream's deferred close re-enters the lock and the goroutine
// hangs in its own panic, so the bubble never quiesces. A case that is still running after
// a generous real-time limit is therefore dumped; if the dump shows a panic or a lock wait
// inside the engine it is reported as a runtime-fatal condition (check.json fatal_patterns),
// otherwise as a harness problem (inconclusive).
func watchdog(finished <-chan struct{}, limit time.Duration) {
	select {
	case <-finished:
		return
	case <-time.After(limit):
	}
	buf := make([]byte, 8<<20)
	buf = buf[:runtime.Stack(buf, true)]
	engine := false
	for _, g := range strings.Split(string(buf), "\n\n") {
		inEngine := strings.Contains(g, "any-sync/commonspace/pubsub.") || strings.Contains(g, "any-sync/net/streampool.")
		stuck := strings.Contains(g, "panic(") || strings.Contains(g, "[sync.Mutex.Lock") || strings.Contains(g, "[sync.RWMutex")
		if inEngine && stuck {
			engine = true
			fmt.Fprintf(os.Stderr, "stuck engine goroutine:\n%s\n\n", g)
		}
	}
	if engine {
		if os.Getenv("VERIF_REPLAY") != "" {
			fmt.Printf("REPLAY-FAILED property=%s test=%s\n", prop, currentTest)
		}
		fmt.Fprintf(os.Stderr, "fatal error: C17 watchdog: the case did not come to rest within %v; an engine goroutine is stuck in a panic or on an engine lock\n", limit)
	} else {
		removeCurrentCase() // not the engine's doing: no verdict, no replay file
		fmt.Fprintf(os.Stderr, "HARNESS: C17 watchdog: the case did not come to rest within %v\n%s\n", limit, buf)
	}
	os.Exit(2)
}

// currentTest names the generating test in the flushed case (set next to outerT).
var currentTest = "TestRandom"

func run(c Case) (vstat.Outcome, error) {
	if c.Kind == kindValidate {
		return runValidate(c)
	}
	writeCurrentCase(c)
	defer removeCurrentCase()
	limit := 10 * time.Second
	if c.Kind == kindSweep {
		limit = 5 * time.Minute
	}
	finished := make(chan struct{})
	defer close(finished)
	go watchdog(finished, limit) // outside the bubble: real time
	if outerT == nil {
		return vstat.Outcome{}, fmt.Errorf("HARNESS: outerT not set")
	}
	var out vstat.Outcome
	var err error
	synctest.Test(outerT, func(*testing.T) {
		defer func() {
			if r := recover(); r != nil {
				err = fmt.Errorf("PANIC: %v\n%s", r, debug.Stack())
			}
		}()
		switch c.Kind {
		case kindSweep:
			out, err = runSweep(c)
		case kindRace:
			out, err = runRace(c)
		default:
			out, err = runSeq(c)
		}
	})
	return out, err
}

func (w *world) outcome(c Case) vstat.Outcome {
	o := vstat.Outcome{Sig: vstat.HashJSON(c), NonTrivial: w.nonTrivial}
	for k := range w.classes {
		o.Classes = append(o.Classes, k)
	}
	sort.Strings(o.Classes)
	return o
}

func runSeq(c Case) (out vstat.Outcome, err error) {
	nClients, nAcc := c.dims()
	w, err := newWorld(c, nClients, nAcc)
	defer w.shutdown()
	if err != nil {
		return out, err
	}
	for i, op := range c.Ops {
		if err = w.apply(i, op); err != nil {
			return out, fmt.Errorf("op %d (%s): %w", i, opNames[mod(op.K, nOps)], err)
		}
	}
	if err = w.teardown(); err != nil {
		return out, fmt.Errorf("teardown: %w", err)
	}
	if err = w.finalCheck(); err != nil {
		return out, fmt.Errorf("after teardown: %w", err)
	}
	return w.outcome(c), nil
}

func (w *world) pickRaw(s int) *link {
	ls := w.liveRaw()
	if len(ls) == 0 {
		return nil
	}
	return ls[mod(s, len(ls))]
}

func (w *world) pickClient(s int) *engine {
	if len(w.clients) == 0 {
		return nil
	}
	return w.clients[mod(s, len(w.clients))]
}

func goodSpace(sp int) string { return spaceNames[mod(sp, nGoodSpaces)] }
func anySpace(sp int) string  { return spaceNames[mod(sp, len(spaceNames))] }

func (w *world) handler(s *lsub) pubsub.Handler {
	return func(spaceId, topic string, identity crypto.PubKey, payload []byte) {
		acc := "?"
		if identity != nil {
			acc = identity.Account()
		}
		w.mu.Lock()
		w.calls = append(w.calls, call{sub: s.id, space: spaceId, topic: topic, account: acc, payload: string(payload)})
		w.mu.Unlock()
	}
}

func (w *world) tsFor(mode int) int64 {
	now := time.Now().UnixMilli()
	switch mod(mode, 6) {
	case 1:
		return now - (skew + time.Second).Milliseconds()
	case 2:
		return now + (skew + time.Second).Milliseconds()
	case 3:
		return now - (skew - time.Second).Milliseconds()
	case 4:
		return now + (skew - time.Second).Milliseconds()
	case 5:
		return 0
	}
	return now
}

func (w *world) buildPublish(i int, l *link, op Op) *pubsubproto.Publish {
	if op.Rep > 0 && len(w.pastPubs) > 0 {
		f := clonePub(w.pastPubs[mod(op.Rep-1, len(w.pastPubs))])
		f.Relayed = op.Rel != (l.kind == lkNodeIn)
		if mod(op.Forge, 9) == 6 {
			f.MsgId = w.newMsgId() // replay under a fresh id: the signature covers the id
		}
		return f
	}
	signer := l.acc
	if op.Acc >= 0 || signer < 0 {
		signer = mod(op.Acc, w.nAcc)
	}
	topic := ""
	if len(op.P) > 0 {
		topic = render(op.P[0])
	}
	f := &pubsubproto.Publish{
		SpaceId:        anySpace(op.Sp),
		Topic:          topic,
		MsgId:          w.newMsgId(),
		Payload:        []byte(fmt.Sprintf("m%d", i)),
		TimestampMilli: w.tsFor(op.TS),
	}
	forge := mod(op.Forge, 9)
	if forge == 4 {
		f.TimestampMilli = w.tsFor(1)
	}
	signPub(accts[signer], f)
	switch forge {
	case 1:
		f.Signature[len(f.Signature)/2] ^= 0x40
	case 2:
		f.Payload = append(f.Payload, 'x')
	case 3:
		if len(op.P) > 1 {
			f.Topic = render(op.P[1])
		} else {
			f.Topic += "/a"
		}
	case 4:
		f.TimestampMilli = w.tsFor(0) // a stale message re-stamped as fresh
	case 5:
		f.Identity = accts[mod(signer+1, maxAcc)].ident
	case 6:
		f.MsgId = w.newMsgId()
	case 7:
		f.SpaceId = goodSpace(mod(op.Sp, nGoodSpaces) + 1)
	}
	f.Relayed = op.Rel
	if l.kind == lkNodeIn {
		f.Relayed = !op.Rel // the other node mostly relays
	}
	return f
}

func (w *world) apply(i int, op Op) error {
	ctx := context.Background()
	switch mod(op.K, nOps) {
	case opRawOpen:
		if len(w.liveRaw()) >= 6 {
			return nil
		}
		if op.Flag&1 == 1 {
			w.openRaw(-1, true)
		} else {
			a := mod(op.Acc, w.nAcc+1)
			if a == w.nAcc {
				a = -1
			}
			w.openRaw(a, false)
		}
		return w.settle()

	case opRawSub:
		l := w.pickRaw(op.S)
		if l == nil || len(op.P) == 0 {
			return nil
		}
		if err := w.push(l, wrapSub(anySpace(op.Sp), renderAll(op.P))); err != nil {
			return err
		}
		return w.settle()

	case opRawUnsub:
		l := w.pickRaw(op.S)
		if l == nil {
			return nil
		}
		if err := w.push(l, wrapUnsub(anySpace(op.Sp), renderAll(op.P))); err != nil {
			return err
		}
		return w.settle()

	case opRawPub:
		l := w.pickRaw(op.S)
		if l == nil {
			return nil
		}
		f := w.buildPublish(i, l, op)
		if op.Rep == 0 && mod(op.Forge, 9) == 8 {
			// a forged twin (same id, broken signature) travels ahead of the genuine message
			twin := clonePub(f)
			twin.Signature[3] ^= 0x01
			if err := w.push(l, wrapPub(twin)); err != nil {
				return err
			}
			if err := w.settle(); err != nil {
				return err
			}
			delete(w.seenIds, string(f.MsgId)) // the genuine one is not a replay
			w.classes["publish-after-forged-twin"] = true
		}
		if err := w.push(l, wrapPub(f)); err != nil {
			return err
		}
		return w.settle()

	case opRawClose:
		l := w.pickRaw(op.S)
		if l == nil {
			return nil
		}
		if op.Flag&1 == 1 {
			l.srvCancel()
			w.classes["stream-close-by-context"] = true
		} else {
			l.close()
		}
		w.modelCloseLink(l)
		if err := w.settle(); err != nil {
			return err
		}
		if !l.isClosed() {
			return violation("stream %d: context cancelled but the engine keeps the stream open", l.id)
		}
		return nil

	case opCliSub:
		cl := w.pickClient(op.S)
		if cl == nil || len(op.P) == 0 {
			return nil
		}
		space, pat := goodSpace(op.Sp), render(op.P[0])
		w.subCtr++
		s := &lsub{id: w.subCtr, client: cl.idx, space: space, pattern: pat}
		unsub, err := cl.svc.Subscribe(space, pat, w.handler(s))
		valid := refValidPattern(pat)
		if valid && err != nil {
			return violation("client %d Subscribe(%q,%q) rejected a well-formed pattern: %v", cl.idx, space, pat, err)
		}
		if !valid && err == nil {
			return violation("client %d Subscribe(%q,%q) accepted a malformed pattern", cl.idx, space, pat)
		}
		if err == nil {
			for _, o := range cl.subs {
				if o.alive && o.space == space && o.pattern == pat {
					w.classes["client-duplicate-subscribe"] = true
				}
			}
			s.alive, s.unsub = true, unsub
			cl.subs = append(cl.subs, s)
			w.classes["client-"+refShape(pat)] = true
		}
		return w.settle()

	case opCliUnsub:
		cl := w.pickClient(op.S)
		if cl == nil {
			return nil
		}
		var alive []*lsub
		for _, s := range cl.subs {
			if s.alive {
				alive = append(alive, s)
			}
		}
		if len(alive) == 0 {
			return nil
		}
		s := alive[mod(op.Flag, len(alive))]
		s.alive = false
		s.unsub()
		w.classes["client-unsubscribe"] = true
		return w.settle()

	case opCliPub:
		cl := w.pickClient(op.S)
		if cl == nil || len(op.P) == 0 {
			return nil
		}
		space, topic := goodSpace(op.Sp), render(op.P[0])
		payload := fmt.Sprintf("m%d", i)
		err := cl.svc.Publish(ctx, space, topic, []byte(payload))
		wantErr := !refValidTopic(topic) || (refOwner(topic) != "" && refOwner(topic) != cl.acc.id)
		if wantErr && err == nil {
			return violation("client %d Publish(%q,%q) accepted a malformed or unowned topic", cl.idx, space, topic)
		}
		if !wantErr && err != nil {
			return violation("client %d Publish(%q,%q) failed: %v", cl.idx, space, topic, err)
		}
		if err == nil {
			w.mu.Lock()
			w.localPub = &localPub{client: cl.idx, space: space, topic: topic, payload: payload}
			w.mu.Unlock()
			w.classes["client-publish"] = true
		}
		return w.settle()

	case opCliKill:
		cl := w.pickClient(op.S)
		if cl == nil {
			return nil
		}
		for _, l := range w.clientLinks(cl.idx) {
			l.close()
			w.modelCloseLink(l)
			w.classes["client-stream-break"] = true
		}
		return w.settle()

	case opEvict:
		space, a := goodSpace(op.Sp), mod(op.Acc, w.nAcc)
		if op.Flag&1 == 1 {
			w.setMember(space, a, false)
		}
		w.relay.svc.EvictMember(space, accts[a].pub)
		if op.Flag&2 == 2 && len(w.clients) > 0 {
			w.clients[0].svc.EvictMember(space, accts[a].pub) // documented no-op on clients
		}
		if w.modelDropSpaceWhere(space, func(l *link) bool { return l.acc == a }) {
			w.classes["evict-with-interest"] = true
		}
		return w.settle()

	case opRevalidate:
		space := goodSpace(op.Sp)
		if op.Flag&1 == 1 {
			w.setMember(space, mod(op.Acc, w.nAcc), false) // the ACL change the revalidation reacts to
		}
		w.relay.svc.RevalidateMembers(space, func(account string) bool { return w.isMemberAccount(space, account) })
		if w.modelDropSpaceWhere(space, func(l *link) bool { return !w.isMember(space, l.acc) }) {
			w.classes["revalidate-with-interest"] = true
		}
		return w.settle()

	case opSetMember:
		w.setMember(goodSpace(op.Sp), mod(op.Acc, w.nAcc), op.Flag&1 == 1)
		return nil

	case opRelayCloseSpace:
		space := goodSpace(op.Sp)
		w.relay.svc.CloseSpace(space)
		if w.modelDropSpaceWhere(space, func(*link) bool { return true }) {
			w.classes["close-space-with-interest"] = true
		}
		return w.settle()

	case opCliCloseSpace:
		cl := w.pickClient(op.S)
		if cl == nil {
			return nil
		}
		space := goodSpace(op.Sp)
		for _, s := range cl.subs {
			if s.alive && s.space == space {
				s.alive = false
				w.classes["client-close-space-with-subs"] = true
			}
		}
		cl.svc.CloseSpace(space)
		return w.settle()

	case opAdvance:
		d := []time.Duration{time.Second, 25 * time.Second, skew + 2*time.Second}[mod(op.Flag, 3)]
		time.Sleep(d)
		return w.settle()

	case opCliSync:
		cl := w.pickClient(op.S)
		if cl == nil {
			return nil
		}
		if err := cl.svc.SyncInterest(ctx, goodSpace(op.Sp)); err != nil {
			return violation("SyncInterest: %v", err)
		}
		return w.settle()

	case opSubCloseRace:
		l := w.pickRaw(op.S)
		if l == nil || len(op.P) == 0 {
			return nil
		}
		g := &gate{link: l, ch: make(chan struct{})}
		w.mu.Lock()
		w.gate = g
		w.mu.Unlock()
		if err := w.push(l, wrapSub(goodSpace(op.Sp), renderAll(op.P))); err != nil {
			return err
		}
		synctest.Wait() // the subscribe is now parked before the interest lock (if it got that far)
		w.mu.Lock()
		hit := g.hit
		w.mu.Unlock()
		if op.Flag&1 == 1 {
			l.close()
		} else {
			l.srvCancel()
		}
		synctest.Wait() // the stream is gone from the pool while the subscribe is still parked
		w.mu.Lock()
		w.gate = nil
		w.mu.Unlock()
		close(g.ch)
		w.modelCloseLink(l)
		if hit {
			w.classes["close-vs-subscribe"] = true
		}
		return w.settle()

	case opSubTagRace:
		return w.subTagRace(op)
	}
	return nil
}

// realNow is the wall clock (the bubble's time.Now is fake and does not advance while a
// goroutine waits for a mutex).
func realNow() int64 {
	var tv syscall.Timeval
	_ = syscall.Gettimeofday(&tv)
	return tv.Sec*1e6 + int64(tv.Usec)
}

// subTagRace: another stream holds the same patterns; the chosen stream's subscribe is
// parked at the pool's AddTagsCtx — its interest is recorded, its tags are not — and a
// generated event (stream death, peer close, eviction of its account, close-space,
// nothing) is scheduled into that window if the engine leaves one. An engine that keeps
// its interest lock across the tagging has no such window: a probe that needs the lock
// does not return while the subscribe is parked, and the event then simply follows the
// subscribe. Either way the final state must be the one of "subscribe, then event".
func (w *world) subTagRace(op Op) error {
	l := w.pickRaw(op.S)
	if l == nil || len(op.P) == 0 {
		return nil
	}
	space, pats := goodSpace(op.Sp), renderAll(op.P)
	if op.Flag&8 == 0 {
		if sib := w.pickRaw(op.S + 1); sib != nil && sib != l {
			if err := w.push(sib, wrapSub(space, pats)); err != nil {
				return err
			}
			if err := w.settle(); err != nil {
				return err
			}
		}
	}
	g := &gate{link: l, ch: make(chan struct{})}
	w.mu.Lock()
	w.tagGate = g
	w.mu.Unlock()
	sub := wrapSub(space, pats)
	b, _, err := encode(sub)
	if err != nil {
		return fmt.Errorf("HARNESS: %w", err)
	}
	l.toSrv <- b // not logged: the reference table is updated by hand, in the order below
	synctest.Wait()
	w.mu.Lock()
	hit := g.hit
	w.mu.Unlock()

	event := func() {
		switch mod(op.Flag&7, 5) {
		case 0:
			l.srvCancel()
		case 1:
			l.close()
		case 2:
			if l.acc >= 0 {
				w.relay.svc.EvictMember(space, accts[l.acc].pub)
			}
		case 3:
			w.relay.svc.CloseSpace(space)
		}
	}
	window := false
	if hit {
		// does anything that needs the interest lock get through while the subscribe is parked?
		probed := make(chan struct{})
		go func() {
			w.relay.svc.EvictMember("c17-no-such-space", n2Acc.pub) // takes the lock, touches nothing
			close(probed)
		}()
		for t0 := realNow(); realNow()-t0 < 3000 && !window; {
			select {
			case <-probed:
				window = true
			default:
				runtime.Gosched()
			}
		}
		w.classes["subscribe-parked-at-tagging"] = true
	}
	if window {
		w.classes["tagging-window-open"] = true
		event()
		synctest.Wait() // the event has fully happened; the subscribe is still parked
	}
	w.mu.Lock()
	w.tagGate = nil
	w.mu.Unlock()
	close(g.ch)
	synctest.Wait()
	if !window {
		event()
	}
	// reference: subscribe, then the event
	w.modelSubscribe(l, sub.GetSubscribe())
	switch mod(op.Flag&7, 5) {
	case 0, 1:
		w.modelCloseLink(l)
	case 2:
		if l.acc >= 0 {
			w.modelDropSpaceWhere(space, func(x *link) bool { return x.acc == l.acc })
		}
	case 3:
		w.modelDropSpaceWhere(space, func(*link) bool { return true })
	}
	return w.settle()
}

// teardown withdraws everything that is still registered, entity by entity, in the
// generated order and by the generated means.
func (w *world) teardown() error {
	pick := func(i int) int {
		if len(w.c.Tear) == 0 {
			return i
		}
		return w.c.Tear[mod(i, len(w.c.Tear))]
	}
	for round := 0; round < 64; round++ {
		type ent struct {
			l  *link
			cl *engine
		}
		var ents []ent
		for _, l := range w.liveRaw() {
			if len(w.def[l.id]) > 0 || len(w.may[l.id]) > 0 {
				ents = append(ents, ent{l: l})
			}
		}
		for _, cl := range w.clients {
			alive := false
			for _, s := range cl.subs {
				alive = alive || s.alive
			}
			holds := false
			for _, l := range w.clientLinks(cl.idx) {
				holds = holds || len(w.def[l.id]) > 0 || len(w.may[l.id]) > 0
			}
			if alive || holds {
				ents = append(ents, ent{cl: cl})
			}
		}
		if len(ents) == 0 {
			return nil
		}
		e := ents[mod(pick(2*round), len(ents))]
		how := mod(pick(2*round+1), 4)
		if round >= 32 {
			how = 1 // make sure it ends
		}
		spacesOf := func(id int) []string {
			m := map[string]bool{}
			for s := range w.def[id] {
				m[s] = true
			}
			for s := range w.may[id] {
				m[s] = true
			}
			var out []string
			for s := range m {
				out = append(out, s)
			}
			sort.Strings(out)
			return out
		}
		if e.l != nil {
			l := e.l
			switch {
			case how == 0:
				for _, s := range spacesOf(l.id) {
					if err := w.push(l, wrapUnsub(s, nil)); err != nil {
						return err
					}
				}
				w.classes["teardown-unsubscribe-all"] = true
			case how == 2 && l.acc >= 0:
				for _, s := range spacesOf(l.id) {
					if !spaceWellFormed(s) {
						continue
					}
					w.relay.svc.EvictMember(s, accts[l.acc].pub)
					w.modelDropSpaceWhere(s, func(x *link) bool { return x.acc == l.acc })
				}
				w.classes["teardown-evict"] = true
			case how == 3:
				for _, s := range spacesOf(l.id) {
					w.relay.svc.CloseSpace(s)
					w.modelDropSpaceWhere(s, func(*link) bool { return true })
				}
				w.classes["teardown-close-space"] = true
			default:
				l.close()
				w.modelCloseLink(l)
				w.classes["teardown-stream-close"] = true
			}
		} else {
			cl := e.cl
			switch how {
			case 2:
				for _, l := range w.clientLinks(cl.idx) {
					l.close()
					w.modelCloseLink(l)
				}
				w.classes["teardown-client-break-then-unsubscribe"] = true
			case 3:
				for s := 0; s < nGoodSpaces; s++ {
					w.relay.svc.CloseSpace(spaceNames[s])
					w.modelDropSpaceWhere(spaceNames[s], func(*link) bool { return true })
				}
				w.classes["teardown-relay-close-space-then-unsubscribe"] = true
			}
			if how >= 2 {
				if err := w.settle(); err != nil {
					return err
				}
			}
			if how == 1 {
				for s := 0; s < nGoodSpaces; s++ {
					cl.svc.CloseSpace(spaceNames[s])
				}
				for _, s := range cl.subs {
					s.alive = false
				}
				w.classes["teardown-client-close-space"] = true
			} else {
				for _, s := range cl.subs {
					if s.alive {
						s.alive = false
						s.unsub()
					}
				}
			}
			// interest a client link still holds at the relay although the client has no
			// subscription left (the relay evicted / closed the space earlier and a later
			// resync re-registered it) is withdrawn by the frames just sent; anything else
			// the client cannot know about goes with its stream
			if err := w.settle(); err != nil {
				return err
			}
			for _, l := range w.clientLinks(cl.idx) {
				if len(w.def[l.id]) > 0 || len(w.may[l.id]) > 0 {
					l.close()
					w.modelCloseLink(l)
				}
			}
		}
		if err := w.settle(); err != nil {
			return err
		}
	}
	return fmt.Errorf("HARNESS: teardown did not converge")
}

// finalCheck: nothing is registered any more — no bookkeeping, and publishes reach nobody.
func (w *world) finalCheck() error {
	if len(w.def) != 0 || len(w.may) != 0 {
		return fmt.Errorf("HARNESS: reference table not empty after teardown: %.300s", fmt.Sprint(w.def, w.may))
	}
	if err := w.checkCounters(); err != nil {
		return err
	}
	// probes: a fresh member publishes on every topic the case used, in every space
	topics := map[string]bool{"a": true, "b": true, "a/b": true, "a/b/a": true, "acc/" + accts[0].id: true}
	for _, op := range w.c.Ops {
		if k := mod(op.K, nOps); k == opRawPub || k == opCliPub {
			for _, p := range op.P {
				if t := render(p); refValidTopic(t) && (refOwner(t) == "" || refOwner(t) == accts[0].id) {
					topics[t] = true
				}
			}
		}
	}
	var ts []string
	for t := range topics {
		ts = append(ts, t)
	}
	sort.Strings(ts)
	w.probing = true
	l := w.openRaw(0, false)
	for s := 0; s < nGoodSpaces; s++ {
		w.setMember(spaceNames[s], 0, true)
		for _, t := range ts {
			f := &pubsubproto.Publish{SpaceId: spaceNames[s], Topic: t, MsgId: w.newMsgId(), Payload: []byte("probe"), TimestampMilli: w.tsFor(0)}
			signPub(accts[0], f)
			if err := w.push(l, wrapPub(f)); err != nil {
				return err
			}
			if err := w.settle(); err != nil {
				return fmt.Errorf("probe: %w", err)
			}
		}
	}
	for _, x := range w.allLinks() {
		x.close()
	}
	if err := w.settle(); err != nil {
		return err
	}
	return nil
}

// ---- exhaustive: validators ---------------------------------------------------------------------

func runValidate(c Case) (vstat.Outcome, error) {
	var out vstat.Outcome
	s := c.Str
	if got, want := pubsub.ValidateTopic(s) == nil, refValidTopic(s); got != want {
		return out, violation("ValidateTopic(%q) accepts=%v, reference says well formed=%v", s, got, want)
	}
	if got, want := pubsub.ValidatePattern(s) == nil, refValidPattern(s); got != want {
		return out, violation("ValidatePattern(%q) accepts=%v, reference says well formed=%v", s, got, want)
	}
	if refValidTopic(s) {
		if got, want := pubsub.TopicOwner(s), refOwner(s); got != want {
			return out, violation("TopicOwner(%q) = %q, reference %q", s, got, want)
		}
		out.Classes = append(out.Classes, "validate-topic-ok")
	} else if refValidPattern(s) {
		out.Classes = append(out.Classes, "validate-pattern-only")
	} else {
		out.Classes = append(out.Classes, "validate-malformed")
	}
	out.Sig = vstat.Hash("validate", s)
	return out, nil
}

// allStrings enumerates every segment list of length 0..maxLen over the alphabet.
func allStrings(alphabet []int, maxLen int, yield func([]int)) {
	var rec func(cur []int)
	rec = func(cur []int) {
		yield(append([]int(nil), cur...))
		if len(cur) == maxLen {
			return
		}
		for _, a := range alphabet {
			rec(append(cur, a))
		}
	}
	rec(nil)
}

var fullAlphabet = []int{sgA, sgB, sgAcc, sgStar, sgTail, sgEmpty, sgOwn}

// ---- exhaustive: the matcher through the engines ------------------------------------------------

// runSweep registers EVERY well-formed pattern of length <= PatMaxLen over the alphabet
// (one relay stream per pattern, plus all of them as local subscriptions of one client,
// plus every malformed pattern on a stream of its own) and publishes EVERY string of
// length <= TopMaxLen over the alphabet as a topic; the step oracle compares each
// (pattern, topic) decision with the reference matcher, at the relay and at the client.
func runSweep(c Case) (out vstat.Outcome, err error) {
	w, err := newWorld(c, 1, 3)
	defer w.shutdown()
	if err != nil {
		return out, err
	}
	w.light = true
	const space = "s0"
	cl := w.clients[0] // account 0 is also the publisher below: a client link and a raw link of one account
	pub := w.openRaw(0, false)
	nPat, nBad := 0, 0
	var pats []string
	seen := map[string]bool{}
	allStrings(fullAlphabet, c.PatMaxLen, func(segs []int) {
		p := render(segs)
		if seen[p] {
			return
		}
		seen[p] = true
		pats = append(pats, p)
	})
	for _, p := range pats {
		l := w.openRaw(1+nPat%2, false)
		if err = w.push(l, wrapSub(space, []string{p})); err != nil {
			return out, err
		}
		if refValidPattern(p) {
			nPat++
			w.subCtr++
			s := &lsub{id: w.subCtr, client: 0, space: space, pattern: p, alive: true}
			if s.unsub, err = cl.svc.Subscribe(space, p, w.handler(s)); err != nil {
				return out, violation("Subscribe(%q) rejected a well-formed pattern: %v", p, err)
			}
			cl.subs = append(cl.subs, s)
			if nPat%64 == 0 { // stay below the engine's bounded send queue
				if err = w.settle(); err != nil {
					return out, err
				}
			}
		} else {
			nBad++
			if _, e := cl.svc.Subscribe(space, p, func(string, string, crypto.PubKey, []byte) {}); e == nil {
				return out, violation("Subscribe(%q) accepted a malformed pattern", p)
			}
		}
	}
	if err = w.settle(); err != nil {
		return out, err
	}
	if err = w.checkCounters(); err != nil {
		return out, err
	}
	nTop, pairs := 0, int64(0)
	seenT := map[string]bool{}
	var topics []string
	allStrings(fullAlphabet, c.TopMaxLen, func(segs []int) {
		t := render(segs)
		if !seenT[t] {
			seenT[t] = true
			topics = append(topics, t)
		}
	})
	for i, t := range topics {
		f := &pubsubproto.Publish{SpaceId: space, Topic: t, MsgId: w.newMsgId(), Payload: []byte(fmt.Sprintf("t%d", i)), TimestampMilli: w.tsFor(0)}
		signPub(accts[0], f)
		if err = w.push(pub, wrapPub(f)); err != nil {
			return out, err
		}
		if err = w.settle(); err != nil {
			return out, err
		}
		nTop++
		pairs += int64(len(pats))
	}
	// withdraw everything again and make sure nothing is left
	for i, s := range cl.subs {
		s.alive = false
		s.unsub()
		if i%64 == 63 {
			if err = w.settle(); err != nil {
				return out, err
			}
		}
	}
	for _, l := range w.liveRaw() {
		if l != pub {
			if l.id%2 == 0 {
				l.close()
				w.modelCloseLink(l)
			} else if err = w.push(l, wrapUnsub(space, nil)); err != nil {
				return out, err
			}
		}
	}
	if err = w.settle(); err != nil {
		return out, err
	}
	w.light = false
	if err = w.finalCheck(); err != nil {
		return out, fmt.Errorf("after teardown: %w", err)
	}
	vstat.Count("sweep_pattern_topic_pairs", pairs)
	vstat.Count("sweep_patterns_wellformed", int64(nPat))
	vstat.Count("sweep_patterns_malformed", int64(nBad))
	vstat.Count("sweep_topics", int64(nTop))
	w.classes["matcher-sweep"] = true
	return w.outcome(c), nil
}

// ---- race: stream close racing subscribe ---------------------------------------------------------

// runRace lets several streams push subscribe frames while, concurrently, each is torn
// down by one of three means and a member publishes; the only oracle is the one the
// statement gives for "in any order": afterwards no bookkeeping remains and publishes
// reach nobody (plus the race detector in the thorough tier).
func runRace(c Case) (out vstat.Outcome, err error) {
	w, err := newWorld(c, 0, maxAcc)
	defer w.shutdown()
	if err != nil {
		return out, err
	}
	pub := w.openRaw(0, false)
	var links []*link
	for _, rs := range c.Race {
		links = append(links, w.openRaw(mod(rs.Acc, maxAcc), false))
	}
	synctest.Wait()
	done := make(chan struct{})
	n := 0
	for i, rs := range c.Race {
		l, rs := links[i], rs
		fire := make(chan struct{})
		n += 2
		go func() {
			defer func() { done <- struct{}{} }()
			fired := false
			for k, fr := range rs.Frames {
				if !fired && k == mod(rs.CloseAfter, len(rs.Frames)+1) {
					close(fire)
					fired = true
				}
				if b, _, e := encode(wrapSub(spaceNames[k%nGoodSpaces], renderAll(fr))); e == nil {
					select {
					case l.toSrv <- b:
					case <-l.closed:
					}
				}
			}
			if !fired {
				close(fire)
			}
		}()
		go func() {
			defer func() { done <- struct{}{} }()
			<-fire
			switch mod(rs.How, 3) {
			case 0:
				l.srvCancel()
			case 1:
				l.close()
			default:
				l.failSend.Store(true) // dies on the next delivery attempt
			}
		}()
	}
	n++
	go func() {
		defer func() { done <- struct{}{} }()
		for i, tp := range c.Topics {
			t := render(tp)
			f := &pubsubproto.Publish{SpaceId: spaceNames[i%nGoodSpaces], Topic: t, MsgId: w.newMsgId(), Payload: []byte("r"), TimestampMilli: w.tsFor(0)}
			signPub(accts[0], f)
			if b, _, e := encode(wrapPub(f)); e == nil {
				pub.toSrv <- b
			}
		}
	}()
	for i := 0; i < n; i++ {
		<-done
	}
	synctest.Wait()
	// whatever survived is closed now; then nothing may remain
	for _, l := range links {
		l.close()
	}
	synctest.Wait()
	w.mu.Lock()
	w.inLog, w.outLog, w.fwdLog = nil, nil, nil
	w.mu.Unlock()
	w.classes["close-vs-subscribe-race"] = true
	w.nonTrivial = len(c.Race) >= 2
	if err = w.finalCheck(); err != nil {
		return out, fmt.Errorf("after racing teardown: %w", err)
	}
	return w.outcome(c), nil
}
