package c17

// Reference semantics written from the property statement and the documented rules in
// commonspace/pubsub/topic.go (NOT from the trie): what a well-formed topic / pattern is,
// who owns a topic in the self-owned acc/ namespace, and when a pattern matches a topic.

import "strings"

const (
	refMaxTopicLen = 256
	refMaxSegments = 16
)

// refStructOK: non-empty, bounded length, bounded segment count, no empty segment
// (hence no leading / trailing / doubled separator).
func refStructOK(s string) ([]string, bool) {
	if s == "" || len(s) > refMaxTopicLen {
		return nil, false
	}
	segs := strings.Split(s, "/")
	if len(segs) > refMaxSegments {
		return nil, false
	}
	for _, g := range segs {
		if g == "" {
			return nil, false
		}
	}
	return segs, true
}

// refValidTopic: canonical form and no wildcard character anywhere.
func refValidTopic(s string) bool {
	segs, ok := refStructOK(s)
	if !ok {
		return false
	}
	for _, g := range segs {
		if strings.ContainsAny(g, "*>") {
			return false
		}
	}
	return true
}

// refValidPattern: canonical form; a wildcard is a whole segment; '>' only last.
func refValidPattern(s string) bool {
	segs, ok := refStructOK(s)
	if !ok {
		return false
	}
	for i, g := range segs {
		switch {
		case g == "*":
		case g == ">":
			if i != len(segs)-1 {
				return false
			}
		case strings.ContainsAny(g, "*>"):
			return false
		}
	}
	return true
}

// refOwner: a topic lies in the self-owned namespace when its first segment is "acc"
// and something follows; its owner is the last segment. "" = not self-owned.
func refOwner(topic string) string {
	segs := strings.Split(topic, "/")
	if len(segs) < 2 || segs[0] != "acc" {
		return ""
	}
	return segs[len(segs)-1]
}

// refMatch: segment by segment; '*' stands for exactly one segment, a trailing '>' for
// one or more. Both arguments are assumed well formed.
func refMatch(pattern, topic string) bool {
	p := strings.Split(pattern, "/")
	t := strings.Split(topic, "/")
	for i, g := range p {
		if g == ">" && i == len(p)-1 {
			return len(t)-i >= 1
		}
		if i >= len(t) {
			return false
		}
		if g != "*" && g != t[i] {
			return false
		}
	}
	return len(p) == len(t)
}

// refShape labels the wildcard shape of a well-formed pattern.
func refShape(pattern string) string {
	segs := strings.Split(pattern, "/")
	star, tail := false, false
	for i, g := range segs {
		if g == "*" {
			star = true
		}
		if g == ">" && i == len(segs)-1 {
			tail = true
		}
	}
	lead := len(segs) > 0 && (segs[0] == "*" || segs[0] == ">")
	switch {
	case star && tail:
		return "pattern-star-and-tail"
	case tail && len(segs) == 1:
		return "pattern-bare-tail"
	case tail:
		return "pattern-tail"
	case star && lead:
		return "pattern-leading-star"
	case star:
		return "pattern-inner-star"
	default:
		return "pattern-literal"
	}
}

// refPrefixes: number of nodes of a minimal prefix tree holding the given patterns
// (one node per distinct non-empty segment prefix).
func refPrefixes(patterns map[string]bool) int {
	seen := map[string]bool{}
	for p := range patterns {
		segs := strings.Split(p, "/")
		for i := 1; i <= len(segs); i++ {
			seen[strings.Join(segs[:i], "/")] = true
		}
	}
	return len(seen)
}
