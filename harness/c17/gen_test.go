package c17

import (
	"strings"
	"testing"

	"pgregory.net/rapid"

	"verif/harness/internal/vstat"
)

// ---- generators (all randomness comes from rapid draws) --------------------------------------

func weighted(rt *rapid.T, label string, weights []int) int {
	total := 0
	for _, w := range weights {
		total += w
	}
	x := rapid.IntRange(0, total-1).Draw(rt, label)
	for i, w := range weights {
		if x < w {
			return i
		}
		x -= w
	}
	return 0
}

func genLiteral(rt *rapid.T, nAcc int) int {
	switch weighted(rt, "lit", []int{5, 4, 1, 1}) {
	case 0:
		return sgA
	case 1:
		return sgB
	case 2:
		return sgAcc
	default:
		return sgOwn + rapid.IntRange(0, nAcc-1).Draw(rt, "own")
	}
}

func genWild(rt *rapid.T, nAcc int) []int {
	n := rapid.IntRange(0, 5).Draw(rt, "wildLen")
	out := make([]int, n)
	for i := range out {
		out[i] = rapid.IntRange(0, sgOwn+nAcc-1).Draw(rt, "wildSeg")
	}
	return out
}

func genPattern(rt *rapid.T, nAcc int) []int {
	if weighted(rt, "patMode", []int{8, 2}) == 1 {
		return genWild(rt, nAcc)
	}
	n := 1 + weighted(rt, "patLen", []int{4, 5, 3, 1})
	out := make([]int, n)
	for i := range out {
		if weighted(rt, "star", []int{3, 1}) == 1 {
			out[i] = sgStar
		} else {
			out[i] = genLiteral(rt, nAcc)
		}
	}
	switch weighted(rt, "tail", []int{6, 2, 2}) {
	case 1:
		out[n-1] = sgTail
	case 2:
		out = append(out, sgTail)
	}
	return out
}

func genTopic(rt *rapid.T, nAcc int, pats [][]int) []int {
	switch weighted(rt, "topMode", []int{4, 8, 1, 2}) {
	case 1: // an instance of a pattern drawn earlier
		if len(pats) > 0 {
			p := pats[rapid.IntRange(0, len(pats)-1).Draw(rt, "from")]
			var out []int
			for _, s := range p {
				switch s {
				case sgStar:
					out = append(out, genLiteral(rt, nAcc))
				case sgTail:
					for k := rapid.IntRange(1, 2).Draw(rt, "tailLen"); k > 0; k-- {
						out = append(out, genLiteral(rt, nAcc))
					}
				default:
					out = append(out, s)
				}
			}
			return out
		}
	case 2: // self-owned namespace
		out := []int{sgAcc}
		if rapid.Bool().Draw(rt, "accMid") {
			out = append(out, genLiteral(rt, nAcc))
		}
		return append(out, sgOwn+rapid.IntRange(0, nAcc-1).Draw(rt, "owner"))
	case 3:
		return genWild(rt, nAcc)
	}
	n := 1 + weighted(rt, "topLen", []int{4, 5, 3, 1})
	out := make([]int, n)
	for i := range out {
		out[i] = genLiteral(rt, nAcc)
	}
	return out
}

func genSpace(rt *rapid.T) int {
	return []int{0, 0, 0, 0, 0, 0, 0, 1, 1, 1, 1, 2}[rapid.IntRange(0, 11).Draw(rt, "space")]
}

func rare(rt *rapid.T, label string, oneIn, hi int) int {
	if rapid.IntRange(0, oneIn-1).Draw(rt, label+"?") != 0 {
		return 0
	}
	return rapid.IntRange(1, hi).Draw(rt, label)
}

func genCase(rt *rapid.T) Case {
	nAcc := rapid.IntRange(2, maxAcc).Draw(rt, "nAcc")
	nClients := rapid.IntRange(1, min(3, nAcc)).Draw(rt, "nClients")
	c := Case{Kind: kindSeq, NAcc: nAcc, NClients: nClients}
	for s := 0; s < nGoodSpaces; s++ {
		row := make([]bool, nAcc)
		for a := range row {
			row[a] = rapid.IntRange(0, 9).Draw(rt, "member") != 0
		}
		c.Members = append(c.Members, row)
	}
	var pats [][]int
	newPats := func(lo, hi int) [][]int {
		n := rapid.IntRange(lo, hi).Draw(rt, "nPats")
		out := make([][]int, n)
		for i := range out {
			if len(pats) > 0 && rapid.IntRange(0, 3).Draw(rt, "reuse") == 0 {
				out[i] = pats[rapid.IntRange(0, len(pats)-1).Draw(rt, "which")]
				continue
			}
			out[i] = genPattern(rt, nAcc)
			pats = append(pats, out[i])
		}
		return out
	}
	for k := rapid.IntRange(2, 3).Draw(rt, "prelude"); k > 0; k-- {
		c.Ops = append(c.Ops, Op{K: opRawOpen, Acc: rapid.IntRange(0, nAcc-1).Draw(rt, "acc")})
	}
	if rapid.IntRange(0, 2).Draw(rt, "node") == 0 {
		c.Ops = append(c.Ops, Op{K: opRawOpen, Flag: 1})
	}
	sel := func() int { return rapid.IntRange(0, 5).Draw(rt, "sel") }
	for k := rapid.IntRange(0, 2).Draw(rt, "preSub"); k > 0; k-- {
		c.Ops = append(c.Ops, Op{K: opRawSub, S: sel(), Sp: rapid.IntRange(0, 1).Draw(rt, "sp"), P: newPats(1, 2)})
	}
	for k := rapid.IntRange(0, 2).Draw(rt, "preCliSub"); k > 0; k-- {
		c.Ops = append(c.Ops, Op{K: opCliSub, S: sel(), Sp: rapid.IntRange(0, 1).Draw(rt, "sp"), P: newPats(1, 1)})
	}
	weights := make([]int, nOps)
	for k, v := range map[int]int{opRawOpen: 4, opRawSub: 18, opRawUnsub: 5, opRawPub: 30, opRawClose: 3, opCliSub: 12,
		opCliUnsub: 4, opCliPub: 10, opCliKill: 2, opEvict: 3, opRevalidate: 3, opSetMember: 3, opRelayCloseSpace: 2,
		opCliCloseSpace: 2, opAdvance: 3, opCliSync: 1, opSubCloseRace: 3, opSubTagRace: 4} {
		weights[k] = v
	}
	for n := rapid.IntRange(3, 36).Draw(rt, "nOps"); n > 0; n-- {
		op := Op{K: weighted(rt, "op", weights)}
		switch op.K {
		case opRawOpen:
			op.Acc = rapid.IntRange(0, nAcc-1).Draw(rt, "acc")
			switch rapid.IntRange(0, 9).Draw(rt, "special") {
			case 0:
				op.Flag = 1 // the other node
			case 1:
				op.Acc = nAcc // no proven identity
			}
		case opRawSub:
			op.S, op.Sp, op.P = sel(), genSpace(rt), newPats(1, 3)
		case opRawUnsub:
			op.S, op.Sp = sel(), genSpace(rt)
			if n := rapid.IntRange(0, 2).Draw(rt, "nUnsub"); n > 0 && len(pats) > 0 {
				for ; n > 0; n-- {
					op.P = append(op.P, pats[rapid.IntRange(0, len(pats)-1).Draw(rt, "which")])
				}
			}
		case opRawPub:
			op.S, op.Sp = sel(), genSpace(rt)
			op.P = [][]int{genTopic(rt, nAcc, pats)}
			op.Acc = -1
			if rapid.IntRange(0, 6).Draw(rt, "otherSigner") == 0 {
				op.Acc = rapid.IntRange(0, nAcc-1).Draw(rt, "signer")
			}
			op.Rel = rapid.IntRange(0, 7).Draw(rt, "relayed") == 0
			op.TS = rare(rt, "ts", 7, 5)
			op.Rep = rare(rt, "replay", 9, 8)
			op.Forge = rare(rt, "forge", 6, 8)
			if op.Forge == 3 {
				op.P = append(op.P, genTopic(rt, nAcc, pats))
			}
		case opRawClose:
			op.S, op.Flag = sel(), rapid.IntRange(0, 1).Draw(rt, "how")
		case opCliSub:
			op.S, op.Sp, op.P = sel(), rapid.IntRange(0, 1).Draw(rt, "sp"), newPats(1, 1)
		case opCliUnsub:
			op.S, op.Flag = sel(), sel()
		case opCliPub:
			op.S, op.Sp = sel(), rapid.IntRange(0, 1).Draw(rt, "sp")
			op.P = [][]int{genTopic(rt, nAcc, pats)}
		case opCliKill, opCliSync:
			op.S, op.Sp = sel(), rapid.IntRange(0, 1).Draw(rt, "sp")
		case opEvict:
			op.Sp, op.Acc, op.Flag = rapid.IntRange(0, 1).Draw(rt, "sp"), rapid.IntRange(0, nAcc-1).Draw(rt, "acc"), rapid.IntRange(0, 3).Draw(rt, "flag")
		case opRevalidate:
			op.Sp, op.Acc, op.Flag = rapid.IntRange(0, 1).Draw(rt, "sp"), rapid.IntRange(0, nAcc-1).Draw(rt, "acc"), rapid.IntRange(0, 1).Draw(rt, "flag")
		case opRelayCloseSpace:
			op.Sp = rapid.IntRange(0, 1).Draw(rt, "sp")
		case opSetMember:
			op.Sp, op.Acc, op.Flag = rapid.IntRange(0, 1).Draw(rt, "sp"), rapid.IntRange(0, nAcc-1).Draw(rt, "acc"), rapid.IntRange(0, 1).Draw(rt, "flag")
		case opCliCloseSpace:
			op.S, op.Sp = sel(), rapid.IntRange(0, 1).Draw(rt, "sp")
		case opAdvance:
			op.Flag = weighted(rt, "dur", []int{3, 3, 1})
		case opSubTagRace:
			op.S, op.Sp, op.P, op.Flag = sel(), rapid.IntRange(0, 1).Draw(rt, "sp"), newPats(1, 2), rapid.IntRange(0, 4).Draw(rt, "event")
			if rapid.IntRange(0, 4).Draw(rt, "noSibling") == 0 {
				op.Flag |= 8
			}
		case opSubCloseRace:
			op.S, op.Sp, op.P, op.Flag = sel(), rapid.IntRange(0, 1).Draw(rt, "sp"), newPats(1, 2), rapid.IntRange(0, 1).Draw(rt, "flag")
		}
		c.Ops = append(c.Ops, op)
	}
	c.Tear = rapid.SliceOfN(rapid.IntRange(0, 7), 4, 8).Draw(rt, "tear")
	return c
}

func genRace(rt *rapid.T) Case {
	c := Case{Kind: kindRace}
	var pats [][]int
	for n := rapid.IntRange(2, 6).Draw(rt, "streams"); n > 0; n-- {
		rs := RaceStream{Acc: rapid.IntRange(0, maxAcc-1).Draw(rt, "acc"), How: rapid.IntRange(0, 2).Draw(rt, "how")}
		for k := rapid.IntRange(1, 5).Draw(rt, "frames"); k > 0; k-- {
			var fr [][]int
			for j := rapid.IntRange(1, 2).Draw(rt, "pats"); j > 0; j-- {
				p := genPattern(rt, maxAcc)
				fr = append(fr, p)
				pats = append(pats, p)
			}
			rs.Frames = append(rs.Frames, fr)
		}
		rs.CloseAfter = rapid.IntRange(0, len(rs.Frames)).Draw(rt, "closeAfter")
		c.Race = append(c.Race, rs)
	}
	for n := rapid.IntRange(0, 8).Draw(rt, "topics"); n > 0; n-- {
		c.Topics = append(c.Topics, genTopic(rt, 1, pats))
	}
	return c
}

// ---- small-scope enumeration ---------------------------------------------------------------------

func enumerate(yield func(Case) bool) {
	ok := true
	seen := map[string]bool{}
	emit := func(s string) {
		if ok && !seen[s] {
			seen[s] = true
			ok = yield(Case{Kind: kindValidate, Str: s})
		}
	}
	// every string of 0..4 segments over the alphabet
	allStrings(fullAlphabet, 4, func(segs []int) { emit(render(segs)) })
	// documented bounds and wildcard characters inside a segment
	rep := func(seg string, n int) string { return strings.TrimSuffix(strings.Repeat(seg+"/", n), "/") }
	for _, s := range []string{
		rep("a", 15), rep("a", 16), rep("a", 17), rep("a", 18), rep("*", 16), rep("*", 17), rep("a", 15) + "/>", rep("a", 16) + "/>",
		strings.Repeat("x", 255), strings.Repeat("x", 256), strings.Repeat("x", 257), rep("abcdefg", 32), rep("abcdefg", 32) + "x",
		"a*", "*a", "a>", ">a", "a/b*", "a/*b/c", "a/>b", "**", ">>", "*>", "a/**", "a/>>", "x/y/z", "acc/x", "acc/x/y", "x/acc/y", "acc",
		"/", "//", "a/", "/a", "a//b", " ", "a/ /b",
	} {
		emit(s)
	}
	if !ok {
		return
	}
	sweeps := [][2]int{{1, 2}, {2, 3}, {3, 3}, {3, 4}}
	if vstat.Thorough() {
		sweeps = append(sweeps, [2]int{4, 4}, [2]int{4, 5})
	} else {
		sweeps = append(sweeps, [2]int{4, 4})
	}
	for _, s := range sweeps {
		if !yield(Case{Kind: kindSweep, PatMaxLen: s[0], TopMaxLen: s[1]}) {
			return
		}
	}
}

// ---- tests ---------------------------------------------------------------------------------------

func TestExhaustive(t *testing.T) {
	outerT, currentTest = t, "TestExhaustive"
	vstat.Enumerate(t, prop, enumerate, run)
}
func TestRandom(t *testing.T) {
	outerT, currentTest = t, "TestRandom"
	vstat.Check(t, prop, genCase, run)
}
func TestStress(t *testing.T) {
	outerT, currentTest = t, "TestStress"
	vstat.Check(t, prop, genRace, run)
}

func TestReplay(t *testing.T) {
	t.Run("TestExhaustive", func(t *testing.T) { outerT = t; vstat.Replay(t, prop, "TestExhaustive", run) })
	t.Run("TestRandom", func(t *testing.T) { outerT = t; vstat.Replay(t, prop, "TestRandom", run) })
	t.Run("TestStress", func(t *testing.T) { outerT = t; vstat.Replay(t, prop, "TestStress", run) })
}

// hand-picked corner cases

// a subscribe parked before the interest lock while its stream dies: nothing may remain
func TestRegSubscribeVsClose(t *testing.T) {
	outerT, currentTest = t, t.Name()
	for flag := 0; flag <= 1; flag++ {
		vstat.One(t, prop, Case{Kind: kindSeq, NAcc: 2, NClients: 1, Ops: []Op{
			{K: opRawOpen, Acc: 0}, {K: opRawOpen, Acc: 1},
			{K: opRawSub, S: 1, P: [][]int{{sgA, sgTail}}},
			{K: opSubCloseRace, S: 0, P: [][]int{{sgA, sgStar}, {sgB}}, Flag: flag},
			{K: opRawPub, S: 0, P: [][]int{{sgA, sgB}}, Acc: -1},
		}}, run)
	}
}

// the subscribing stream dies / is evicted / its space closes exactly between "interest
// recorded" and "tags registered" while a sibling stream holds the same patterns
func TestRegSubscribeParkedAtTagging(t *testing.T) {
	outerT, currentTest = t, t.Name()
	for flag := 0; flag <= 4; flag++ {
		vstat.One(t, prop, Case{Kind: kindSeq, NAcc: 3, NClients: 1, Ops: []Op{
			{K: opRawOpen, Acc: 0}, {K: opRawOpen, Acc: 1}, {K: opRawOpen, Acc: 2},
			{K: opSubTagRace, S: 0, P: [][]int{{sgA, sgTail}, {sgB}}, Flag: flag},
			{K: opRawPub, S: 2, P: [][]int{{sgA, sgB}}, Acc: -1},
			{K: opRawSub, S: 2, P: [][]int{{sgA, sgTail}}},
			{K: opRawPub, S: 2, P: [][]int{{sgA, sgB}}, Acc: -1},
		}}, run)
	}
}

// "space/pattern" routing tags: a malformed space id must not alias a pattern prefix
func TestRegSpaceTagAlias(t *testing.T) {
	outerT, currentTest = t, t.Name()
	vstat.One(t, prop, Case{Kind: kindSeq, NAcc: 2, NClients: 1, Ops: []Op{
		{K: opRawOpen, Acc: 0}, {K: opRawOpen, Acc: 1},
		{K: opRawSub, S: 0, Sp: 2, P: [][]int{{sgB}}},               // space "s0/a", pattern "b"
		{K: opRawSub, S: 0, Sp: 0, P: [][]int{{sgB, sgB}}},          // space "s0", pattern "b/b"
		{K: opRawPub, S: 1, Sp: 0, P: [][]int{{sgA, sgB}}, Acc: -1}, // space "s0", topic "a/b"
		{K: opRawPub, S: 1, Sp: 0, P: [][]int{{sgB, sgB}}, Acc: -1},
	}}, run)
}

// one client, two subscriptions matching the same topic, echo through the relay, resync, eviction
func TestRegClientRoundTrip(t *testing.T) {
	outerT, currentTest = t, t.Name()
	vstat.One(t, prop, Case{Kind: kindSeq, NAcc: 3, NClients: 2, Ops: []Op{
		{K: opCliSub, S: 0, P: [][]int{{sgA, sgStar}}}, {K: opCliSub, S: 0, P: [][]int{{sgA, sgTail}}},
		{K: opCliSub, S: 1, P: [][]int{{sgTail}}},
		{K: opCliPub, S: 0, P: [][]int{{sgA, sgB}}}, {K: opCliPub, S: 1, P: [][]int{{sgA, sgB, sgA}}},
		{K: opAdvance, Flag: 1},
		{K: opEvict, Acc: 0, Flag: 1}, {K: opCliPub, S: 1, P: [][]int{{sgA, sgB}}},
		{K: opCliKill, S: 1}, {K: opCliPub, S: 0, P: [][]int{{sgB}}},
		{K: opRelayCloseSpace}, {K: opAdvance, Flag: 1}, {K: opCliPub, S: 1, P: [][]int{{sgA, sgA}}},
	}, Tear: []int{1, 2, 0, 3}}, run)
}
