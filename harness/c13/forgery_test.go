package c13

// Compound mutants: ONE signature is made invalid (stale content signature, corrupted
// identity signature, foreign master key) and every other binding around it is repaired
// (ids recomputed, referring parts updated and re-signed by the owner). Single-part
// mutations cannot isolate a signature check because a changed part is also caught by the
// id / embedding checks of the other parts; these mutants leave the signature as the only
// thing wrong ("accepted only if every signature ... verifies"). The control variants apply
// the same edit with a fresh, valid signature and must come out consistent.

import (
	"fmt"

	"verif/harness/internal/mutate"
)

const (
	aclMasterKey, aclIdentitySignature = 2, 6
)

func setBytes(content []byte, num int, v []byte) []byte {
	return mutate.SetField(content, num, mutate.WireBytes, v)
}

// repair rebuilds the parts that refer to part x (whose wrapper bytes are given) so that
// every id reference / embedding is consistent again. All re-signing uses the owner's key.
func (sp *space) repair(x int, xBytes []byte) (ps [3]part, ok bool) {
	ps = sp.parts
	hc, _, ok1 := signed(sp.parts[pHdr].Bytes)
	ac, _, ok2 := signed(sp.parts[pAcl].Bytes)
	sc, _, ok3 := signed(sp.parts[pSet].Bytes)
	if !ok1 || !ok2 || !ok3 {
		return ps, false
	}
	resign := func(p int, content []byte) {
		nb := rewrap(sp.parts[p].Bytes, content, sp.signer)
		ps = sp.withPart(ps, p, nb, true)
	}
	ps = sp.withPart(ps, x, xBytes, true)
	switch {
	case !sp.v1 && x == pHdr:
		spaceId := ps[pHdr].Id
		resign(pAcl, setBytes(ac, aclSpaceId, []byte(spaceId)))
		resign(pSet, setBytes(setBytes(sc, setSpaceId, []byte(spaceId)), setAclHeadId, []byte(ps[pAcl].Id)))
	case !sp.v1 && x == pAcl:
		resign(pSet, setBytes(sc, setAclHeadId, []byte(ps[pAcl].Id)))
	case sp.v1 && x == pAcl:
		resign(pSet, setBytes(sc, setAclHeadId, []byte(ps[pAcl].Id)))
		resign(pHdr, setBytes(setBytes(hc, hdrAclPayload, ps[pAcl].Bytes), hdrSettingPayload, ps[pSet].Bytes))
	case sp.v1 && x == pSet:
		resign(pHdr, setBytes(hc, hdrSettingPayload, ps[pSet].Bytes))
	default:
		return ps, false // nothing refers to the part: the single-part mutations cover it
	}
	return ps, true
}

func forgeryMut(A, B *space, m Mut) (mt mutant, ok bool) {
	x := mutate.Mod(m.Part, 3)
	c0, _, ok := signed(A.parts[x].Bytes)
	if !ok {
		return mt, false
	}
	sub := mutate.Mod(m.Sub, 3)
	var xBytes []byte
	control := m.Resign
	switch sub {
	case 0: // content edit; stale signature (forgery) or fresh signature (control)
		c1, ok := mutate.Apply(c0, m.Op)
		if !ok {
			return mt, false
		}
		if control {
			xBytes = rewrap(A.parts[x].Bytes, c1, A.signer)
		} else {
			xBytes = rewrap(A.parts[x].Bytes, c1, nil)
		}
		mt.desc = fmt.Sprintf("forgery %s content %s control=%v, rest repaired", partNames[x], mutate.Describe(c0, m.Op), control)
		mt.why = "the " + partNames[x] + " signature is stale"
	case 1: // ACL root: identity signature (master key over identity) corrupted, wrapper signature fresh
		x = pAcl
		c0, _, _ = signed(A.parts[x].Bytes)
		is, ok := mutate.XorByte(bytesVal(c0, aclIdentitySignature), m.Pos, 0x01)
		if !ok {
			return mt, false
		}
		xBytes = rewrap(A.parts[x].Bytes, setBytes(c0, aclIdentitySignature, is), A.signer)
		control = false
		mt.desc = fmt.Sprintf("forgery acl identitySignature byte %d, re-signed, rest repaired", mutate.Mod(m.Pos, len(is)))
		mt.why = "the master-key signature over the identity does not verify"
	default: // ACL root: foreign master key, wrapper signature fresh
		x = pAcl
		c0, _, _ = signed(A.parts[x].Bytes)
		mk := bytesVal(mustContent(B.parts[pAcl].Bytes), aclMasterKey)
		if string(mk) == string(bytesVal(c0, aclMasterKey)) {
			return mt, false
		}
		xBytes = rewrap(A.parts[x].Bytes, setBytes(c0, aclMasterKey, mk), A.signer)
		control = false
		mt.desc = "forgery acl masterKey := other valid master key, re-signed, rest repaired"
		mt.why = "the identity signature was not made by the named master key"
	}
	ps, ok := A.repair(x, xBytes)
	if !ok {
		return mt, false
	}
	mt.parts = ps
	mt.touched = 7
	if control {
		mt.exp, mt.why = expEither, "edit signed by the owner and every reference repaired"
	} else {
		mt.exp = expReject
	}
	return mt, true
}
