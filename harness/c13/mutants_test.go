package c13

// Mutation of valid spaces and the expectation attached to every mutant.
//
// Bindings the statement names (and nothing else) decide the expectation:
//   * every part's id is the content hash of its bytes (the space id additionally carries the
//     replication key of the signed header as its suffix);
//   * every part's signed content is covered by a signature of the identity named in it;
//   * v0: ACL root and settings root name the space id, settings name the ACL root id;
//   * v1: the signed header embeds the ACL root bytes and the settings root bytes.
// A mutant that leaves one of these broken must be rejected. A mutant that re-establishes
// all of them (e.g. a re-encoded wrapper whose id was recomputed and that nothing else refers
// to, or a header re-signed by its owner) is a different, internally consistent payload: the
// statement does not demand its rejection, the harness then only demands that the reference
// model below agrees that it is consistent.

import (
	"crypto/ed25519"
	"errors"
	"fmt"
	"strconv"
	"strings"

	"github.com/anyproto/any-sync/commonspace/spacepayloads"
	"github.com/anyproto/any-sync/commonspace/spacestorage"

	"verif/harness/internal/mutate"
)

// field numbers of the messages involved (from the .proto files)
const (
	fContent, fSignature = 1, 2 // RawSpaceHeader / RawRecord / RawTreeChange

	hdrIdentity, hdrRepKey, hdrAclPayload, hdrSettingPayload, hdrVersion = 1, 4, 7, 8, 100
	aclIdentity, aclSpaceId                                              = 1, 3
	setAclHeadId, setSpaceId, setIdentity                                = 1, 2, 6
	keyData                                                              = 2 // cryptoproto.Key.data
)

type Mut struct {
	Kind      string    `json:"kind"` // byte | trunc | outer-op | inner-op | id-edit | blank | splice | id-swap | semantic | forgery
	Part      int       `json:"part"`
	Pos       int       `json:"pos"`
	Mask      int       `json:"mask"`
	Recompute bool      `json:"recompute"` // recompute the part's content id after the edit
	Resign    bool      `json:"resign"`    // inner-op: sign the edited content with the owner's key
	Op        mutate.Op `json:"op"`
	Sub       int       `json:"sub"`
}

type expectation int

const (
	expReject expectation = iota
	expAccept
	expEither
)

type mutant struct {
	parts   [3]part
	nilHdr  bool
	exp     expectation
	why     string // why this expectation
	desc    string // distinctness descriptor: what was edited where
	touched int    // bit set of touched parts
}

func bytesVal(msg []byte, num int) []byte {
	v, _ := mutate.Last(msg, num, mutate.WireBytes)
	return v
}

func varintVal(msg []byte, num int) uint64 {
	v, ok := mutate.Last(msg, num, mutate.WireVarint)
	if !ok {
		return 0
	}
	var x uint64
	for i := len(v) - 1; i >= 0; i-- {
		x = x<<7 | uint64(v[i]&0x7f)
	}
	return x
}

func sameBytesField(a, b []byte, nums ...int) bool {
	for _, n := range nums {
		if string(bytesVal(a, n)) != string(bytesVal(b, n)) {
			return false
		}
	}
	return true
}

func (sp *space) hdrIdFor(bytes []byte) string { return cidOf(bytes) + "." + sp.suffix }

func (sp *space) withPart(ps [3]part, p int, bytes []byte, recompute bool) [3]part {
	ps[p].Bytes = bytes
	if recompute {
		if p == pHdr {
			ps[p].Id = sp.hdrIdFor(bytes)
		} else {
			ps[p].Id = cidOf(bytes)
		}
	}
	return ps
}

// outerExpect: the wrapper (Raw*) bytes of part p were edited.
func (sp *space) outerExpect(p int, newOuter []byte, recompute bool) (expectation, string) {
	if !recompute {
		return expReject, "bytes no longer hash to the part's id"
	}
	aliasCapable := (p == pHdr && sp.v1) || (p == pSet && !sp.v1)
	if !aliasCapable {
		return expReject, "another part refers to this part's id or bytes"
	}
	if _, ok := mutate.Parse(newOuter); !ok {
		return expEither, "wrapper not parseable by the harness parser"
	}
	c0, s0, _ := signed(sp.parts[p].Bytes)
	c1, s1, ok := signed(newOuter)
	if ok && string(c0) == string(c1) && string(s0) == string(s1) {
		return expEither, "same signed content and signature under a recomputed id that nothing refers to"
	}
	return expReject, "signed content or signature changed without a new signature"
}

// resignExpect: the signed content of part p was edited, re-signed by the owner, id recomputed.
func (sp *space) resignExpect(p int, c0, c1 []byte) (expectation, string) {
	switch {
	case p == pAcl:
		return expReject, "settings root (v0) / header (v1) still refer to the old ACL root"
	case p == pHdr && !sp.v1:
		return expReject, "ACL root and settings root name the old space id"
	case p == pSet && sp.v1:
		return expReject, "header embeds the old settings root"
	}
	if _, ok := mutate.Parse(c1); !ok {
		return expEither, "edited content not parseable by the harness parser"
	}
	if p == pHdr {
		if sameBytesField(c0, c1, hdrIdentity, hdrAclPayload, hdrSettingPayload) &&
			varintVal(c0, hdrRepKey) == varintVal(c1, hdrRepKey) && varintVal(c0, hdrVersion) == varintVal(c1, hdrVersion) {
			return expEither, "owner re-signed a v1 header with the same identity, replication key, version and embedded roots"
		}
		return expReject, "v1 header no longer matches identity / replication-key suffix / version / embedded roots"
	}
	if sameBytesField(c0, c1, setAclHeadId, setSpaceId, setIdentity) {
		return expEither, "owner re-signed a v0 settings root naming the same space and ACL root"
	}
	return expReject, "v0 settings root no longer names the space / the ACL root / its signer"
}

func suffixEdits(suffix string) []string {
	other := "1"
	if v, err := strconv.ParseUint(suffix, 36, 64); err == nil {
		other = strconv.FormatUint(v+1, 36)
	}
	cands := []string{strings.ToUpper(suffix), "0" + suffix, other, "", suffix + "0", " " + suffix, "+" + suffix, "-" + suffix, suffix + ".x", suffix + "."}
	var out []string
	for _, c := range cands {
		if c != suffix {
			out = append(out, c)
		}
	}
	return out
}

const nBlank = 6
const nSemantic = 11

// applyMut builds the mutant of A described by m (B is the second valid space used by
// splices / foreign values). ok=false: not applicable or the edit changes nothing.
func applyMut(A, B *space, m Mut) (mt mutant, ok bool) {
	p := mutate.Mod(m.Part, 3)
	mt.parts = A.parts
	orig := A.parts[p]
	mt.touched = 1 << p
	switch m.Kind {
	case "byte":
		mask := byte(m.Mask)
		if mask == 0 {
			mask = 1
		}
		nb, ok := mutate.XorByte(orig.Bytes, m.Pos, mask)
		if !ok {
			return mt, false
		}
		mt.parts = A.withPart(mt.parts, p, nb, m.Recompute)
		mt.exp, mt.why = A.outerExpect(p, nb, m.Recompute)
		mt.desc = fmt.Sprintf("%s byte %d^%02x recompute=%v", partNames[p], mutate.Mod(m.Pos, len(orig.Bytes)), mask, m.Recompute)
	case "trunc":
		nb, ok := mutate.Truncate(orig.Bytes, m.Pos)
		if !ok {
			return mt, false
		}
		mt.parts = A.withPart(mt.parts, p, nb, m.Recompute)
		mt.exp, mt.why = A.outerExpect(p, nb, m.Recompute)
		mt.desc = fmt.Sprintf("%s truncated to %d recompute=%v", partNames[p], len(nb), m.Recompute)
	case "outer-op":
		nb, ok := mutate.Apply(orig.Bytes, m.Op)
		if !ok {
			return mt, false
		}
		mt.parts = A.withPart(mt.parts, p, nb, m.Recompute)
		mt.exp, mt.why = A.outerExpect(p, nb, m.Recompute)
		mt.desc = fmt.Sprintf("%s wrapper %s recompute=%v", partNames[p], mutate.Describe(orig.Bytes, m.Op), m.Recompute)
	case "inner-op":
		c0, _, ok := signed(orig.Bytes)
		if !ok {
			return mt, false
		}
		c1, ok := mutate.Apply(c0, m.Op)
		if !ok {
			return mt, false
		}
		if m.Resign {
			nb := rewrap(orig.Bytes, c1, A.signer)
			mt.parts = A.withPart(mt.parts, p, nb, true)
			mt.exp, mt.why = A.resignExpect(p, c0, c1)
		} else {
			nb := rewrap(orig.Bytes, c1, nil)
			mt.parts = A.withPart(mt.parts, p, nb, m.Recompute)
			mt.exp, mt.why = expReject, "signed content changed, signature is stale"
		}
		mt.desc = fmt.Sprintf("%s content %s recompute=%v resign=%v", partNames[p], mutate.Describe(c0, m.Op), m.Recompute || m.Resign, m.Resign)
	case "id-edit":
		var target string
		switch mutate.Mod(m.Sub, 5) {
		case 0: // a character of the content-id part of the space id
			eds := mutate.StringEdits(A.cid, m.Pos)
			if len(eds) == 0 {
				return mt, false
			}
			mt.parts[pHdr].Id = eds[mutate.Mod(m.Mask, len(eds))] + "." + A.suffix
			target, mt.touched = "space-id/cid", 1<<pHdr
		case 1: // the replication-key suffix
			eds := suffixEdits(A.suffix)
			mt.parts[pHdr].Id = A.cid + "." + eds[mutate.Mod(m.Mask, len(eds))]
			target, mt.touched = "space-id/suffix", 1<<pHdr
		case 2, 3:
			q := pAcl + mutate.Mod(m.Sub, 5) - 2
			eds := mutate.StringEdits(A.parts[q].Id, m.Pos)
			if len(eds) == 0 {
				return mt, false
			}
			mt.parts[q].Id = eds[mutate.Mod(m.Mask, len(eds))]
			target, mt.touched = partNames[q]+"-id", 1<<q
		default: // any character of the whole space id, including the dot
			eds := mutate.StringEdits(A.parts[pHdr].Id, m.Pos)
			if len(eds) == 0 {
				return mt, false
			}
			mt.parts[pHdr].Id = eds[mutate.Mod(m.Mask, len(eds))]
			target, mt.touched = "space-id", 1<<pHdr
		}
		mt.exp, mt.why = expReject, "id string no longer equals content hash (+ replication-key suffix)"
		mt.desc = fmt.Sprintf("%s pos %d variant %d", target, m.Pos, m.Mask)
	case "blank":
		sub := mutate.Mod(m.Sub, nBlank)
		switch sub {
		case 0:
			mt.parts[p].Bytes = nil
		case 1:
			mt.parts[p].Bytes = []byte{}
		case 2:
			mt.parts[p].Id = ""
		case 3:
			p = pHdr
			mt.touched = 1 << pHdr
			mt.nilHdr = true
		case 4: // empty bytes with the matching id of the empty string
			mt.parts = A.withPart(mt.parts, p, nil, true)
		case 5: // only the signature removed
			nb, ok := mutate.EditNested(orig.Bytes, nil, func(b []byte) ([]byte, bool) {
				return mutate.SetField(b, fSignature, mutate.WireBytes, nil), true
			})
			if !ok {
				return mt, false
			}
			mt.parts = A.withPart(mt.parts, p, nb, m.Recompute)
		}
		mt.exp, mt.why = expReject, "part missing / empty / unsigned"
		mt.desc = fmt.Sprintf("%s blank %d recompute=%v", partNames[p], sub, m.Recompute && sub == 5)
	case "splice":
		mask := mutate.Mod(m.Mask, 6) + 1 // 1..6: proper, non-empty subset of parts taken from B
		mt.touched = 0
		for q := 0; q < 3; q++ {
			if mask&(1<<q) != 0 {
				mt.parts[q] = B.parts[q]
				mt.touched |= 1 << q
			}
		}
		mt.desc = fmt.Sprintf("splice mask %03b with %s sameOwner=%v", mask, ctorNames[B.ctor.Kind], A.ctor.Owner == B.ctor.Owner)
		if equalParts(mt.parts, A.parts) || equalParts(mt.parts, B.parts) {
			mt.exp, mt.why = expAccept, "combination is byte-identical to one of the two valid spaces"
		} else {
			mt.exp, mt.why = expReject, "parts of two different spaces"
		}
		return mt, true
	case "id-swap":
		ids := []string{A.parts[0].Id, A.parts[1].Id, A.parts[2].Id, B.parts[0].Id, B.parts[1].Id, B.parts[2].Id, A.cid, B.cid + "." + A.suffix, A.cid + "." + B.suffix}
		mt.parts[p].Id = ids[mutate.Mod(m.Sub, len(ids))]
		mt.exp, mt.why = expReject, "id of another object"
		mt.desc = fmt.Sprintf("%s id := foreign id %d", partNames[p], mutate.Mod(m.Sub, len(ids)))
	case "semantic":
		return semanticMut(A, B, mutate.Mod(m.Sub, nSemantic))
	case "forgery":
		return forgeryMut(A, B, m)
	default:
		return mt, false
	}
	if equalParts(mt.parts, A.parts) && !mt.nilHdr {
		return mt, false
	}
	return mt, true
}

func equalParts(a, b [3]part) bool {
	return a[0].equal(b[0]) && a[1].equal(b[1]) && a[2].equal(b[2])
}

// semanticMut: targeted single-field edits with *valid foreign values*, re-signed by the
// owner and re-hashed, so that they pass authentication and reach the binding checks.
func semanticMut(A, B *space, sub int) (mt mutant, ok bool) {
	mt.parts = A.parts
	edit := func(p int, f func(content []byte) []byte, suffix string) bool {
		c0, _, ok := signed(A.parts[p].Bytes)
		if !ok {
			return false
		}
		c1 := f(c0)
		if string(c1) == string(c0) {
			return false
		}
		nb := rewrap(A.parts[p].Bytes, c1, A.signer)
		mt.parts = A.withPart(mt.parts, p, nb, true)
		if p == pHdr && suffix != "" {
			mt.parts[p].Id = cidOf(nb) + "." + suffix
		}
		mt.touched = 1 << p
		return true
	}
	setB := func(num int, v []byte) func([]byte) []byte {
		return func(c []byte) []byte { return mutate.SetField(c, num, mutate.WireBytes, v) }
	}
	setV := func(num int, v uint64) func([]byte) []byte {
		return func(c []byte) []byte { return mutate.SetField(c, num, mutate.WireVarint, mutate.AppendUvarint(nil, v)) }
	}
	hc, _, _ := signed(A.parts[pHdr].Bytes)
	rk := varintVal(hc, hdrRepKey)
	mt.exp = expReject
	switch sub {
	case 0:
		ok = edit(pSet, setB(setSpaceId, []byte(B.parts[pHdr].Id)), "")
		mt.desc, mt.why = "settings.spaceId := other valid space id (re-signed)", "settings root names another space"
	case 1:
		ok = edit(pSet, setB(setSpaceId, []byte(A.parts[pHdr].Id+"0")), "")
		mt.desc, mt.why = "settings.spaceId := id+'0' (re-signed)", "settings root names another space"
	case 2:
		ok = edit(pSet, setB(setAclHeadId, []byte(B.parts[pAcl].Id)), "")
		mt.desc, mt.why = "settings.aclHeadId := other valid ACL root id (re-signed)", "settings root names another ACL root"
	case 3:
		ok = edit(pAcl, setB(aclSpaceId, []byte(B.parts[pHdr].Id)), "")
		mt.desc, mt.why = "acl.spaceId := other valid space id (re-signed)", "ACL root names another space / differs from what header and settings refer to"
	case 4:
		if !A.v1 {
			return mt, false
		}
		ok = edit(pHdr, setB(hdrAclPayload, B.parts[pAcl].Bytes), "")
		mt.desc, mt.why = "header.aclPayload := other valid ACL root (re-signed)", "header embeds another ACL root than the one presented"
	case 5:
		if !A.v1 {
			return mt, false
		}
		ok = edit(pHdr, setB(hdrSettingPayload, B.parts[pSet].Bytes), "")
		mt.desc, mt.why = "header.settingPayload := other valid settings root (re-signed)", "header embeds another settings root than the one presented"
	case 6:
		ok = edit(pHdr, setV(hdrRepKey, rk+1), "")
		mt.desc, mt.why = "header.replicationKey+1, old suffix (re-signed)", "id suffix is not the signed replication key"
	case 7:
		ok = edit(pHdr, setV(hdrRepKey, rk+1), strconv.FormatUint(rk+1, 36))
		mt.desc = "header.replicationKey+1, matching suffix (re-signed)"
		if A.v1 {
			mt.exp, mt.why = expEither, "owner re-signed a v1 header; nothing else names the space id"
		} else {
			mt.why = "ACL root and settings root name the old space id"
		}
	case 8:
		ok = edit(pHdr, setV(hdrVersion, 1-varintVal(hc, hdrVersion)), "")
		mt.desc, mt.why = "header.version toggled (re-signed)", "roots are bound the other way than the header version claims"
	case 9:
		ok = edit(pHdr, setB(hdrIdentity, bytesVal(mustContent(B.parts[pHdr].Bytes), hdrIdentity)), "")
		if ok && A.signerIs(B) {
			return mt, false
		}
		mt.desc, mt.why = "header.identity := other valid identity, signed by the old one", "signature does not belong to the named identity"
	case 10:
		ok = edit(pAcl, setB(aclIdentity, bytesVal(mustContent(B.parts[pAcl].Bytes), aclIdentity)), "")
		if ok && A.signerIs(B) {
			return mt, false
		}
		mt.desc, mt.why = "acl.identity := other valid identity, signed by the old one", "signature does not belong to the named identity"
	}
	return mt, ok
}

func mustContent(outer []byte) []byte {
	c, _, _ := signed(outer)
	return c
}

func (sp *space) signerIs(o *space) bool { return sp.signer.GetPublic().Equals(o.signer.GetPublic()) }

// ---- running the validators ------------------------------------------------------------

func (sp *space) payload(mt mutant) spacestorage.SpaceStorageCreatePayload {
	pl := sp.payloadOf(mt.parts)
	if mt.nilHdr {
		pl.SpaceHeaderWithId = nil
	}
	return pl
}

// validate drives the validator the way createSpaceStorage does (create / push / pull all
// go through it). A panic is reported as such.
func validate(pl spacestorage.SpaceStorageCreatePayload) (err error, panicked any) {
	defer func() {
		if r := recover(); r != nil {
			panicked = r
		}
	}()
	return spacepayloads.ValidateSpaceStorageCreatePayload(pl), nil
}

func validateHeader(pl spacestorage.SpaceStorageCreatePayload) (need bool, err error, panicked any) {
	defer func() {
		if r := recover(); r != nil {
			panicked = r
		}
	}()
	need, err = spacepayloads.ValidateSpaceHeader(pl.SpaceHeaderWithId, nil, pl.AclWithId.Payload, pl.SpaceSettingsWithId.RawChange)
	return need, err, nil
}

// ---- reference model of "internally consistent" ------------------------------------------
// Used only for payloads the validator ACCEPTED although they are not byte-identical to a
// constructor output (consistent variants, fuzz inputs). errUnparsed = the harness parser
// cannot read the payload (no verdict).

var errUnparsed = errors.New("not parseable by the harness parser")

func verifyWrapped(outer []byte, identityField int) (content []byte, err error) {
	if _, ok := mutate.Parse(outer); !ok {
		return nil, errUnparsed
	}
	content, sig, _ := signed(outer)
	if _, ok := mutate.Parse(content); !ok {
		return nil, errUnparsed
	}
	keyProto := bytesVal(content, identityField)
	if _, ok := mutate.Parse(keyProto); !ok {
		return nil, errUnparsed
	}
	pub := bytesVal(keyProto, keyData)
	if len(pub) != ed25519.PublicKeySize {
		return nil, fmt.Errorf("identity is not an ed25519 public key")
	}
	if !ed25519.Verify(ed25519.PublicKey(pub), content, sig) {
		return nil, fmt.Errorf("signature does not verify under the named identity")
	}
	return content, nil
}

func modelConsistent(ps [3]part) error {
	hc, err := verifyWrapped(ps[pHdr].Bytes, hdrIdentity)
	if err != nil {
		return fmt.Errorf("header: %w", err)
	}
	ac, err := verifyWrapped(ps[pAcl].Bytes, aclIdentity)
	if err != nil {
		return fmt.Errorf("acl root: %w", err)
	}
	sc, err := verifyWrapped(ps[pSet].Bytes, setIdentity)
	if err != nil {
		return fmt.Errorf("settings root: %w", err)
	}
	// ACL root: the master key signs the raw identity
	mkProto, idProto := bytesVal(ac, aclMasterKey), bytesVal(ac, aclIdentity)
	if _, ok := mutate.Parse(mkProto); !ok {
		return fmt.Errorf("acl root master key: %w", errUnparsed)
	}
	if mk := bytesVal(mkProto, keyData); len(mk) != ed25519.PublicKeySize ||
		!ed25519.Verify(ed25519.PublicKey(mk), bytesVal(idProto, keyData), bytesVal(ac, aclIdentitySignature)) {
		return fmt.Errorf("acl root: identity signature does not verify under the named master key")
	}
	if want := cidOf(ps[pHdr].Bytes) + "." + strconv.FormatUint(varintVal(hc, hdrRepKey), 36); ps[pHdr].Id != want {
		return fmt.Errorf("space id %q is not hash.replicationKey %q", ps[pHdr].Id, want)
	}
	if ps[pAcl].Id != cidOf(ps[pAcl].Bytes) {
		return fmt.Errorf("acl root id is not the hash of its bytes")
	}
	if ps[pSet].Id != cidOf(ps[pSet].Bytes) {
		return fmt.Errorf("settings root id is not the hash of its bytes")
	}
	if string(bytesVal(sc, setAclHeadId)) != ps[pAcl].Id {
		return fmt.Errorf("settings root names ACL root %q, presented %q", bytesVal(sc, setAclHeadId), ps[pAcl].Id)
	}
	if varintVal(hc, hdrVersion) == 1 {
		if string(bytesVal(hc, hdrAclPayload)) != string(ps[pAcl].Bytes) {
			return fmt.Errorf("v1 header embeds another ACL root")
		}
		if string(bytesVal(hc, hdrSettingPayload)) != string(ps[pSet].Bytes) {
			return fmt.Errorf("v1 header embeds another settings root")
		}
		return nil
	}
	if string(bytesVal(ac, aclSpaceId)) != ps[pHdr].Id {
		return fmt.Errorf("v0 ACL root names space %q", bytesVal(ac, aclSpaceId))
	}
	if string(bytesVal(sc, setSpaceId)) != ps[pHdr].Id {
		return fmt.Errorf("v0 settings root names space %q", bytesVal(sc, setSpaceId))
	}
	return nil
}
