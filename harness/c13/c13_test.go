// Package c13 decides property C13 (the space id binds header, ACL root and settings root;
// one-to-one derivation is symmetric): valid payloads are produced by every real
// constructor from generated specs, mutated (single bytes, truncations, single wire fields of
// wrapper and signed content with stale or fresh signatures, id strings, replication-key
// suffix, cross-splices of two valid spaces) and driven through
// ValidateSpaceStorageCreatePayload / ValidateSpaceHeader exactly like createSpaceStorage does.
package c13

import (
	"fmt"
	"os"
	"path/filepath"
	"sort"
	"strconv"
	"strings"
	"testing"

	"github.com/anyproto/any-sync/app/logger"
	"pgregory.net/rapid"

	"verif/harness/internal/mutate"
	"verif/harness/internal/vstat"
)

const prop = "C13"

func TestMain(m *testing.M) {
	logger.Config{Production: true, DefaultLevel: "fatal", DisableStdErr: true}.ApplyGlobal()
	// native fuzz workers: the driver hands a directory, every process writes its own file
	if d := os.Getenv("VERIF_STATS_DIR"); d != "" { // (workers inherit the coordinator's environment: always re-derive)
		os.Setenv("VERIF_STATS", filepath.Join(d, "stats-"+strconv.Itoa(os.Getpid())+".json"))
	}
	vstat.Main(m, prop)
}

// ---- case (plain data) -------------------------------------------------------------

type Case struct {
	Seed uint64 `json:"seed"` // seeds crypto/rand for the constructors
	A    Ctor   `json:"a"`    // the space that is mutated
	B    Ctor   `json:"b"`    // a second valid space (splices, foreign values)
	// Sweep != "": run enumerates a whole family of mutations of part Part itself:
	//   bytes      every byte x 3 bit patterns and every truncation, without and with recomputed id
	//   outer-ops  every single-field edit of the wrapper, without and with recomputed id
	//   inner-ops  every single-field edit of the signed content: stale signature (without / with
	//              recomputed id), re-signed by the owner, and as a compound forgery (stale
	//              signature, every other reference repaired) with its validly signed control
	//   ids        every character of the three ids x edit variants, all suffix edits, all blanks
	//   combine    all proper subsets of parts from B, all foreign ids, all targeted re-signed edits,
	//              identity-signature / master-key forgeries
	Sweep string `json:"sweep,omitempty"`
	Part  int    `json:"part"`
	Muts  []Mut  `json:"muts,omitempty"`
}

// recordAs is the name of the generating test (per-mutant statistics are recorded under it).
var recordAs = "TestRandom"

func sweepMuts(A *space, c Case) []Mut {
	p := mutate.Mod(c.Part, 3)
	var out []Mut
	switch c.Sweep {
	case "bytes":
		n := len(A.parts[p].Bytes)
		for _, rc := range []bool{false, true} {
			for pos := 0; pos < n; pos++ {
				for _, mask := range mutate.BitPatterns {
					out = append(out, Mut{Kind: "byte", Part: p, Pos: pos, Mask: int(mask), Recompute: rc})
				}
				out = append(out, Mut{Kind: "trunc", Part: p, Pos: pos, Recompute: rc})
			}
		}
	case "outer-ops":
		for _, op := range mutate.Ops(A.parts[p].Bytes) {
			for _, rc := range []bool{false, true} {
				out = append(out, Mut{Kind: "outer-op", Part: p, Op: op, Recompute: rc})
			}
		}
	case "inner-ops":
		content, _, _ := signed(A.parts[p].Bytes)
		for _, op := range mutate.Ops(content) {
			out = append(out,
				Mut{Kind: "inner-op", Part: p, Op: op},
				Mut{Kind: "inner-op", Part: p, Op: op, Recompute: true},
				Mut{Kind: "inner-op", Part: p, Op: op, Resign: true},
				Mut{Kind: "forgery", Part: p, Op: op},
				Mut{Kind: "forgery", Part: p, Op: op, Resign: true})
		}
	case "ids":
		for sub, s := range []string{A.cid, "", A.parts[pAcl].Id, A.parts[pSet].Id, A.parts[pHdr].Id} {
			if sub == 1 {
				for v := range suffixEdits(A.suffix) {
					out = append(out, Mut{Kind: "id-edit", Sub: 1, Mask: v})
				}
				continue
			}
			for pos := 0; pos < len(s); pos++ {
				for v := 0; v < 5; v++ {
					out = append(out, Mut{Kind: "id-edit", Sub: sub, Pos: pos, Mask: v})
				}
			}
		}
		for q := 0; q < 3; q++ {
			for sub := 0; sub < nBlank; sub++ {
				out = append(out, Mut{Kind: "blank", Part: q, Sub: sub}, Mut{Kind: "blank", Part: q, Sub: sub, Recompute: true})
			}
		}
	case "combine":
		for mask := 0; mask < 6; mask++ {
			out = append(out, Mut{Kind: "splice", Mask: mask})
		}
		for q := 0; q < 3; q++ {
			for sub := 0; sub < 9; sub++ {
				out = append(out, Mut{Kind: "id-swap", Part: q, Sub: sub})
			}
		}
		for sub := 0; sub < nSemantic; sub++ {
			out = append(out, Mut{Kind: "semantic", Sub: sub})
		}
		for pos := 0; pos < 64; pos += 9 {
			out = append(out, Mut{Kind: "forgery", Sub: 1, Pos: pos})
		}
		out = append(out, Mut{Kind: "forgery", Sub: 2})
	}
	return out
}

// ---- the property --------------------------------------------------------------------

func run(c Case) (vstat.Outcome, error) {
	var out vstat.Outcome
	reseed(c.Seed)
	A, err := build(c.A)
	if err != nil {
		return out, err
	}
	B, err := build(c.B)
	if err != nil {
		return out, err
	}
	// the originals validate, through both entry points
	for _, sp := range []*space{A, B} {
		pl := sp.payloadOf(sp.parts)
		if err, p := validate(pl); p != nil || err != nil {
			return out, fmt.Errorf("valid %s payload rejected: err=%v panic=%v", ctorNames[sp.ctor.Kind], err, p)
		}
		need, err, p := validateHeader(pl)
		if p != nil || err != nil {
			return out, fmt.Errorf("valid %s header rejected by ValidateSpaceHeader: err=%v panic=%v", ctorNames[sp.ctor.Kind], err, p)
		}
		if need != !sp.v1 {
			return out, fmt.Errorf("%s: ValidateSpaceHeader needCheckSpaceId=%v for a v1=%v header", ctorNames[sp.ctor.Kind], need, sp.v1)
		}
		if err := modelConsistent(sp.parts); err != nil {
			return out, fmt.Errorf("harness reference model rejects a valid %s payload (harness bug): %v", ctorNames[sp.ctor.Kind], err)
		}
	}
	muts := c.Muts
	if c.Sweep != "" {
		muts = sweepMuts(A, c)
	}
	applied := 0
	for _, m := range muts {
		mt, ok := applyMut(A, B, m)
		if !ok {
			vstat.Count("mutations_not_applicable", 1)
			continue
		}
		applied++
		if err := checkMutant(A, B, m, mt); err != nil {
			return out, err
		}
	}
	out.Sig = vstat.HashJSON(c)
	out.Classes = []string{"case"}
	if applied == 0 && len(muts) > 0 {
		out.Classes = append(out.Classes, "case-without-applicable-mutation")
	}
	return out, nil
}

func checkMutant(A, B *space, m Mut, mt mutant) error {
	pl := A.payload(mt)
	err, panicked := validate(pl)
	fail := func(format string, a ...any) error {
		return fmt.Errorf("%s payload, mutation {%s} (%+v): %s", ctorNames[A.ctor.Kind], mt.desc, m, fmt.Sprintf(format, a...))
	}
	if panicked != nil {
		return fail("validator panicked: %v", panicked)
	}
	accepted := err == nil
	classes := []string{"ctor-" + ctorNames[A.ctor.Kind], "mut-" + m.Kind}
	switch mt.exp {
	case expReject:
		if accepted {
			return fail("ACCEPTED, must be rejected because: %s", mt.why)
		}
		classes = append(classes, "rejected-as-required")
	case expAccept:
		if !accepted {
			return fail("rejected with %v although %s", err, mt.why)
		}
		classes = append(classes, "identical-to-valid-space")
	case expEither:
		if accepted {
			switch merr := modelConsistent(mt.parts); {
			case merr == nil:
				classes = append(classes, "consistent-variant-accepted")
				if m.Kind == "forgery" {
					classes = append(classes, "forgery-control-accepted")
				}
			case unwrapIs(merr, errUnparsed):
				// Something in the payload is unreadable for the harness parser although the
				// generated decoders took it. For mutants that were NOT re-signed (wrapper
				// re-encoded under a recomputed id) the one remaining question is "same signed
				// content and signature as the original?" - ask the generated decoder. Mutants
				// re-signed by the owner (inner-op resign, semantic, forgery controls)
				// legitimately carry new content and signatures in every touched part: for those
				// there is no verdict, the case is only counted.
				resigned := m.Resign || m.Kind == "semantic" || m.Kind == "forgery"
				for q := 0; q < 3 && !resigned; q++ {
					if mt.touched&(1<<q) == 0 {
						continue
					}
					c0, s0, _ := signed(A.parts[q].Bytes)
					c1, s1, derr := decodeWrapper(q, mt.parts[q].Bytes)
					if derr != nil || string(c0) != string(c1) || string(s0) != string(s1) {
						return fail("ACCEPTED a %s wrapper the harness cannot parse and whose signed content/signature differ from the original (decode err %v)", partNames[q], derr)
					}
				}
				classes = append(classes, "accepted-unparsed-by-harness")
			default:
				return fail("ACCEPTED (%s) but the reference model finds it inconsistent: %v", mt.why, merr)
			}
		} else if strings.Contains(mt.why, "not parseable") {
			classes = append(classes, "unparseable-variant-rejected")
		} else {
			classes = append(classes, "consistent-variant-rejected")
		}
	}
	// second entry point: the header validated together with the presented roots
	if mt.touched&(1<<pHdr) == 0 && !mt.nilHdr {
		_, herr, hp := validateHeader(pl)
		if hp != nil {
			return fail("ValidateSpaceHeader panicked: %v", hp)
		}
		// a nil root means "not presented" to ValidateSpaceHeader (header-only validation)
		changed := func(q int) bool {
			return mt.parts[q].Bytes != nil && string(mt.parts[q].Bytes) != string(A.parts[q].Bytes)
		}
		rootsChanged := changed(pAcl) || changed(pSet)
		if A.v1 && rootsChanged && herr == nil {
			return fail("ValidateSpaceHeader ACCEPTED a v1 header together with root bytes it does not embed")
		}
		if A.v1 && rootsChanged {
			classes = append(classes, "v1-header-vs-foreign-root")
		}
	}
	// non-trivial: the mutant passes every content-hash gate and the touched parts stay
	// decodable (so signature / binding logic decides), or it is a cross-splice
	nontrivial := m.Kind == "splice"
	if !nontrivial && !mt.nilHdr {
		gate := true
		for q := 0; q < 3; q++ {
			id := mt.parts[q].Id
			if q == pHdr {
				if i := indexDot(id); i >= 0 {
					id = id[:i]
				}
			}
			if id != cidOf(mt.parts[q].Bytes) {
				gate = false
			}
		}
		if gate {
			nontrivial = true
			for q := 0; q < 3; q++ {
				if mt.touched&(1<<q) == 0 {
					continue
				}
				content, _, ok := signed(mt.parts[q].Bytes)
				if _, pok := mutate.Parse(content); !ok || !pok {
					nontrivial = false
				}
			}
		}
	}
	if nontrivial {
		classes = append(classes, "reaches-binding-logic")
	}
	sort.Strings(classes)
	vstat.Record(recordAs, vstat.Outcome{
		Sig:        vstat.Hash(A.ctor.Kind, B.ctor.Kind, mt.desc),
		NonTrivial: nontrivial,
		Classes:    classes,
	}, func() any { return map[string]any{"a": A.ctor, "b": B.ctor, "mut": m, "what": mt.desc} })
	return nil
}

func unwrapIs(err, target error) bool {
	for err != nil {
		if err == target {
			return true
		}
		u, ok := err.(interface{ Unwrap() error })
		if !ok {
			return false
		}
		err = u.Unwrap()
	}
	return false
}

func indexDot(s string) int {
	for i := 0; i < len(s); i++ {
		if s[i] == '.' {
			return i
		}
	}
	return -1
}

// ---- generators ------------------------------------------------------------------------

// canonical spec per constructor for the exhaustive sweeps
func canonical(kind int, variant int) Ctor {
	c := Ctor{Kind: kind, Owner: 1 + variant, Peer: 3 + variant, Master: 5 + variant, Meta: 7, Read: 2,
		SpaceType: "anytype.space", RepKey: 0x1f3a9c2e5b7d + uint64(variant), Payload: []byte("space-payload"), Metadata: []byte("owner-meta"),
		Options: variant % 3, FileProto: variant % 2}
	return c
}

func shardFilter() func(i int) bool {
	shard, _ := strconv.Atoi(os.Getenv("VERIF_SHARD"))
	shards, _ := strconv.Atoi(os.Getenv("VERIF_SHARDS"))
	if shards < 1 {
		shards = 1
	}
	return func(i int) bool { return i%shards == shard%shards }
}

// enumerate: one payload per constructor; every byte / truncation / wrapper field edit /
// content field edit of every part, every id character, every blank; every ordered pair of
// constructors (same and different owner) for splices, foreign ids and targeted re-signed
// edits; the derive-v0 twins that share a space id but not an ACL root.
func enumerate(yield func(Case) bool) {
	mine := shardFilter()
	i := 0
	emit := func(c Case) bool {
		i++
		if !mine(i) {
			return true
		}
		return yield(c)
	}
	for kind := 0; kind < nCtors; kind++ {
		a, b := canonical(kind, 0), canonical((kind+1)%nCtors, 1)
		if !emit(Case{Seed: uint64(kind), A: a, B: b, Sweep: "ids"}) {
			return
		}
		for _, sw := range []string{"outer-ops", "inner-ops"} {
			for p := 0; p < 3; p++ {
				if !emit(Case{Seed: uint64(kind), A: a, B: b, Sweep: sw, Part: p}) {
					return
				}
			}
		}
	}
	for ka := 0; ka < nCtors; ka++ {
		for kb := 0; kb < nCtors; kb++ {
			for same := 0; same < 2; same++ {
				a, b := canonical(ka, 0), canonical(kb, 1)
				b.SpaceType = "other.space"
				if same == 1 {
					b.Owner, b.Peer = a.Owner, a.Peer
				}
				if !emit(Case{Seed: uint64(100 + ka*20 + kb*2 + same), A: a, B: b, Sweep: "combine"}) {
					return
				}
			}
		}
	}
	// twins: same signing key, same header => same space id; different master key => different ACL root
	for _, kind := range []int{ctorDeriveV0, ctorDeriveV1} {
		a, b := canonical(kind, 0), canonical(kind, 0)
		b.Master = a.Master + 1
		if !emit(Case{Seed: 7, A: a, B: b, Sweep: "combine"}) {
			return
		}
		// same keys, other space type: derive-v1 shares ACL root and settings root bytes
		b = canonical(kind, 0)
		b.SpaceType = "other.space"
		if !emit(Case{Seed: 8, A: a, B: b, Sweep: "combine"}) {
			return
		}
	}
	// the big ones last: every byte of every part
	for kind := 0; kind < nCtors; kind++ {
		for p := 0; p < 3; p++ {
			if !emit(Case{Seed: uint64(kind), A: canonical(kind, 0), B: canonical((kind+1)%nCtors, 1), Sweep: "bytes", Part: p}) {
				return
			}
		}
	}
}

var spaceTypes = []string{"anytype.space", "", "derived.space", "anytype.onetoone", "any.onetoone", "x", "any.space.with.dots", "üñí"}

func genCtor(rt *rapid.T, label string) Ctor {
	return Ctor{
		Kind:      rapid.IntRange(0, nCtors-1).Draw(rt, label+"kind"),
		Owner:     rapid.IntRange(0, keyPool-1).Draw(rt, label+"owner"),
		Peer:      rapid.IntRange(0, keyPool-1).Draw(rt, label+"peer"),
		Master:    rapid.IntRange(0, keyPool-1).Draw(rt, label+"master"),
		Meta:      rapid.IntRange(0, keyPool-1).Draw(rt, label+"meta"),
		Read:      rapid.IntRange(0, keyPool-1).Draw(rt, label+"read"),
		SpaceType: rapid.SampledFrom(spaceTypes).Draw(rt, label+"type"),
		RepKey:    rapid.OneOf(rapid.Uint64(), rapid.SampledFrom([]uint64{0, 1, 35, 36, 1<<63 - 1, 1 << 63, ^uint64(0)})).Draw(rt, label+"repkey"),
		Payload:   rapid.SliceOfN(rapid.Byte(), 0, 24).Draw(rt, label+"payload"),
		Metadata:  rapid.SliceOfN(rapid.Byte(), 0, 12).Draw(rt, label+"metadata"),
		Options:   rapid.IntRange(0, 2).Draw(rt, label+"options"),
		FileProto: rapid.IntRange(0, 1).Draw(rt, label+"fileproto"),
	}
}

var mutKinds = []string{"byte", "byte", "trunc", "outer-op", "outer-op", "inner-op", "inner-op", "inner-op", "id-edit", "blank", "splice", "id-swap", "semantic", "semantic", "forgery", "forgery"}

func genMut(rt *rapid.T) Mut {
	return Mut{
		Kind:      rapid.SampledFrom(mutKinds).Draw(rt, "kind"),
		Part:      rapid.IntRange(0, 2).Draw(rt, "part"),
		Pos:       rapid.IntRange(0, 4095).Draw(rt, "pos"),
		Mask:      rapid.IntRange(1, 255).Draw(rt, "mask"),
		Recompute: rapid.Bool().Draw(rt, "recompute"),
		Resign:    rapid.Bool().Draw(rt, "resign"),
		Op:        mutate.Op{Kind: rapid.SampledFrom(mutate.OpKinds).Draw(rt, "op"), Field: rapid.IntRange(0, 15).Draw(rt, "field")},
		Sub:       rapid.IntRange(0, 15).Draw(rt, "sub"),
	}
}

func genCase(rt *rapid.T) Case {
	c := Case{Seed: rapid.Uint64().Draw(rt, "seed"), A: genCtor(rt, "a.")}
	switch rapid.IntRange(0, 3).Draw(rt, "relation") {
	case 0: // unrelated
		c.B = genCtor(rt, "b.")
	case 1: // same owner, otherwise free
		c.B = genCtor(rt, "b.")
		c.B.Owner, c.B.Peer = c.A.Owner, c.A.Peer
	case 2: // same spec, other constructor (same / different header version)
		c.B = c.A
		c.B.Kind = rapid.IntRange(0, nCtors-1).Draw(rt, "b.kind")
	default: // same spec but one knob
		c.B = c.A
		switch rapid.IntRange(0, 3).Draw(rt, "knob") {
		case 0:
			c.B.Master = c.A.Master + 1
		case 1:
			c.B.SpaceType = c.A.SpaceType + "2"
		case 2:
			c.B.RepKey = c.A.RepKey + 1
		default:
			c.B.Payload = append(append([]byte(nil), c.A.Payload...), 1)
		}
	}
	c.Muts = rapid.SliceOfN(rapid.Custom(genMut), 24, 40).Draw(rt, "muts")
	return c
}

func TestExhaustive(t *testing.T) {
	recordAs = t.Name()
	vstat.Enumerate(t, prop, enumerate, run)
}

func TestRandom(t *testing.T) {
	recordAs = t.Name()
	vstat.Check(t, prop, genCase, run)
}

func TestReplay(t *testing.T) {
	recordAs = "TestReplay"
	t.Run("TestExhaustive", func(t *testing.T) { vstat.Replay(t, prop, "TestExhaustive", run) })
	t.Run("TestRandom", func(t *testing.T) { vstat.Replay(t, prop, "TestRandom", run) })
	t.Run("TestOneToOne", func(t *testing.T) { vstat.Replay(t, prop, "TestOneToOne", runPairs) })
	t.Run("TestOneToOneExhaustive", func(t *testing.T) { vstat.Replay(t, prop, "TestOneToOneExhaustive", runPairs) })
	t.Run("TestRegCorners", func(t *testing.T) { vstat.Replay(t, prop, "TestRegCorners", run) })
}

// hand-picked corners: replication key 0 and max; empty space type; the targeted re-signed
// edits against every constructor pairing that shares an owner.
func TestRegCorners(t *testing.T) {
	recordAs = t.Name()
	for kind := 0; kind < nCtors; kind++ {
		a := canonical(kind, 0)
		a.RepKey, a.SpaceType, a.Payload, a.Metadata = 0, "", nil, nil
		b := canonical(kind, 0)
		b.RepKey = ^uint64(0)
		vstat.One(t, prop, Case{Seed: 1, A: a, B: b, Sweep: "combine"}, run)
		vstat.One(t, prop, Case{Seed: 2, A: b, B: a, Sweep: "ids"}, run)
	}
}
