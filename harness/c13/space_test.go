package c13

// Construction of valid spaces through the real constructors, from plain-data specs.

import (
	"crypto/ed25519"
	crand "crypto/rand"
	"encoding/binary"
	"fmt"
	mrand "math/rand/v2"
	"strings"
	"sync"

	"github.com/anyproto/any-sync/commonspace/object/acl/aclrecordproto"
	"github.com/anyproto/any-sync/commonspace/object/tree/treechangeproto"
	"github.com/anyproto/any-sync/commonspace/spacepayloads"
	"github.com/anyproto/any-sync/commonspace/spacestorage"
	"github.com/anyproto/any-sync/commonspace/spacesyncproto"
	"github.com/anyproto/any-sync/consensus/consensusproto"
	"github.com/anyproto/any-sync/util/cidutil"
	"github.com/anyproto/any-sync/util/crypto"

	"verif/harness/internal/mutate"
)

// ---- deterministic crypto/rand -------------------------------------------------------
// The create constructors draw seeds, nonces and ephemeral keys from crypto/rand; the
// reader is replaced by a ChaCha8 stream reseeded from the case so that a replayed case
// rebuilds the same bytes (time.Now().Unix() in the create constructors is the only input
// left outside the case; no verdict depends on it).

type detReader struct {
	mu sync.Mutex
	c  *mrand.ChaCha8
}

func (r *detReader) Read(p []byte) (int, error) {
	r.mu.Lock()
	defer r.mu.Unlock()
	return r.c.Read(p)
}

var det = &detReader{c: mrand.NewChaCha8([32]byte{13})}

func init() { crand.Reader = det }

func reseed(seed uint64) {
	var s [32]byte
	binary.LittleEndian.PutUint64(s[:], seed)
	copy(s[8:], "verif-c13")
	det.mu.Lock()
	det.c = mrand.NewChaCha8(s)
	det.mu.Unlock()
}

// ---- key pool ------------------------------------------------------------------------

const keyPool = 12

var (
	keyOnce sync.Once
	keys    [keyPool]crypto.PrivKey
)

func key(i int) crypto.PrivKey {
	keyOnce.Do(func() {
		for k := range keys {
			seed := make([]byte, ed25519.SeedSize)
			copy(seed, fmt.Sprintf("c13-key-%02d", k))
			keys[k] = crypto.NewEd25519PrivKey(ed25519.NewKeyFromSeed(seed))
		}
	})
	return keys[mutate.Mod(i, keyPool)]
}

func readKey(i int) crypto.SymKey {
	raw := make([]byte, 32)
	copy(raw, fmt.Sprintf("c13-read-%02d", mutate.Mod(i, keyPool)))
	k, err := crypto.UnmarshallAESKey(raw)
	if err != nil {
		panic(err)
	}
	return k
}

// ---- constructor spec (plain data) -----------------------------------------------------

const (
	ctorCreateV0 = iota
	ctorCreateV1
	ctorDeriveV0
	ctorDeriveV1
	ctorOneToOne    // legacy anytype.onetoone
	ctorOneToOneAny // any.onetoone
	nCtors
)

var ctorNames = [nCtors]string{"create-v0", "create-v1", "derive-v0", "derive-v1", "onetoone-anytype", "onetoone-any"}

type Ctor struct {
	Kind      int    `json:"kind"`
	Owner     int    `json:"owner"` // signing key; one-to-one: party a (private key)
	Peer      int    `json:"peer"`  // one-to-one: party b (public key)
	Master    int    `json:"master"`
	Meta      int    `json:"meta"`
	Read      int    `json:"read"`
	SpaceType string `json:"space_type"`
	RepKey    uint64 `json:"rep_key"`
	Payload   []byte `json:"payload"`
	Metadata  []byte `json:"metadata"`
	Options   int    `json:"options"`    // 0 nil, 1 {deleteRestricted:false}, 2 {deleteRestricted:true}
	FileProto int    `json:"file_proto"` // 0 unspecified, 1 v2
}

func normCtor(c Ctor) Ctor {
	c.Kind = mutate.Mod(c.Kind, nCtors)
	c.Owner, c.Peer, c.Master = mutate.Mod(c.Owner, keyPool), mutate.Mod(c.Peer, keyPool), mutate.Mod(c.Master, keyPool)
	c.Meta, c.Read = mutate.Mod(c.Meta, keyPool), mutate.Mod(c.Read, keyPool)
	if spacepayloads.IsOneToOneType(c.SpaceType) {
		// the dedicated constructors own these types (their header payload must be an AclOneToOneInfo)
		c.SpaceType = "x." + c.SpaceType
	}
	c.Options = mutate.Mod(c.Options, 3)
	c.FileProto = mutate.Mod(c.FileProto, 2)
	if c.Kind >= ctorOneToOne && c.Peer == c.Owner {
		c.Peer = mutate.Mod(c.Owner+1, keyPool)
	}
	return c
}

// part is one of the three parts of a space payload together with its id.
type part struct {
	Bytes []byte
	Id    string
}

func (p part) equal(q part) bool { return string(p.Bytes) == string(q.Bytes) && p.Id == q.Id }

const (
	pHdr = iota
	pAcl
	pSet
)

var partNames = [3]string{"header", "acl", "settings"}

// space is a valid payload plus what the harness needs to re-sign parts of it.
type space struct {
	ctor   Ctor
	v1     bool
	parts  [3]part
	signer crypto.PrivKey // the key that signed all three parts
	cid    string         // header id before the dot
	suffix string         // header id after the dot
}

func (s *space) payloadOf(ps [3]part) spacestorage.SpaceStorageCreatePayload {
	return spacestorage.SpaceStorageCreatePayload{
		AclWithId:           &consensusproto.RawRecordWithId{Payload: ps[pAcl].Bytes, Id: ps[pAcl].Id},
		SpaceHeaderWithId:   &spacesyncproto.RawSpaceHeaderWithId{RawHeader: ps[pHdr].Bytes, Id: ps[pHdr].Id},
		SpaceSettingsWithId: &treechangeproto.RawTreeChangeWithId{RawChange: ps[pSet].Bytes, Id: ps[pSet].Id},
	}
}

func options(i int) *aclrecordproto.AclSpaceOptions {
	switch i {
	case 1:
		return &aclrecordproto.AclSpaceOptions{}
	case 2:
		return &aclrecordproto.AclSpaceOptions{DeleteRestricted: true}
	}
	return nil
}

func fileProto(i int) spacesyncproto.SpaceFileProtoVersion {
	if i == 1 {
		return spacesyncproto.SpaceFileProtoVersion_SpaceFileProtoVersionV2
	}
	return spacesyncproto.SpaceFileProtoVersion_SpaceFileProtoVersionUnspecified
}

func oneToOneType(kind int) string {
	if kind == ctorOneToOneAny {
		return spacepayloads.SpaceTypeOneToOneAny
	}
	return spacepayloads.SpaceTypeOneToOne
}

// build runs the real constructor for the spec.
func build(c Ctor) (*space, error) {
	c = normCtor(c)
	var (
		out spacestorage.SpaceStorageCreatePayload
		err error
		sp  = &space{ctor: c, signer: key(c.Owner)}
	)
	switch c.Kind {
	case ctorCreateV0, ctorCreateV1:
		pl := spacepayloads.SpaceCreatePayload{
			SigningKey: key(c.Owner), SpaceType: c.SpaceType, ReplicationKey: c.RepKey, SpacePayload: c.Payload,
			MasterKey: key(c.Master), ReadKey: readKey(c.Read), MetadataKey: key(c.Meta), Metadata: c.Metadata,
			Options: options(c.Options), FileProtoVersion: fileProto(c.FileProto),
		}
		if c.Kind == ctorCreateV0 {
			out, err = spacepayloads.StoragePayloadForSpaceCreate(pl)
		} else {
			out, err = spacepayloads.StoragePayloadForSpaceCreateV1(pl)
			sp.v1 = true
		}
	case ctorDeriveV0, ctorDeriveV1:
		pl := spacepayloads.SpaceDerivePayload{
			SigningKey: key(c.Owner), MasterKey: key(c.Master), SpaceType: c.SpaceType, SpacePayload: c.Payload,
			FileProtoVersion: fileProto(c.FileProto),
		}
		if c.Kind == ctorDeriveV0 {
			out, err = spacepayloads.StoragePayloadForSpaceDerive(pl)
		} else {
			out, err = spacepayloads.StoragePayloadForSpaceDeriveV1(pl)
			sp.v1 = true
		}
	default:
		if c.Kind == ctorOneToOne {
			out, err = spacepayloads.StoragePayloadForOneToOneSpace(key(c.Owner), key(c.Peer).GetPublic())
		} else {
			out, err = spacepayloads.StoragePayloadForOneToOneSpaceWithType(key(c.Owner), key(c.Peer).GetPublic(), oneToOneType(c.Kind))
		}
		sp.v1 = true
		if err == nil {
			sp.signer, err = crypto.GenerateSharedKey(key(c.Owner), key(c.Peer).GetPublic(), crypto.AnysyncOneToOneSpacePath)
		}
	}
	if err != nil {
		return nil, fmt.Errorf("constructor %s: %w", ctorNames[c.Kind], err)
	}
	if out.SpaceHeaderWithId == nil || out.AclWithId == nil || out.SpaceSettingsWithId == nil {
		return nil, fmt.Errorf("constructor %s returned an incomplete payload", ctorNames[c.Kind])
	}
	sp.parts[pHdr] = part{out.SpaceHeaderWithId.RawHeader, out.SpaceHeaderWithId.Id}
	sp.parts[pAcl] = part{out.AclWithId.Payload, out.AclWithId.Id}
	sp.parts[pSet] = part{out.SpaceSettingsWithId.RawChange, out.SpaceSettingsWithId.Id}
	i := strings.Index(sp.parts[pHdr].Id, ".")
	if i < 0 {
		return nil, fmt.Errorf("constructor %s: space id %q has no replication-key suffix", ctorNames[c.Kind], sp.parts[pHdr].Id)
	}
	sp.cid, sp.suffix = sp.parts[pHdr].Id[:i], sp.parts[pHdr].Id[i+1:]
	return sp, nil
}

func cidOf(b []byte) string {
	id, err := cidutil.NewCidFromBytes(b)
	if err != nil {
		panic(err)
	}
	return id
}

// signed returns the signed content and the signature of an outer Raw* message
// (field 1 and field 2 in all three of RawSpaceHeader, RawRecord, RawTreeChange).
func signed(outer []byte) (content, sig []byte, ok bool) {
	content, ok1 := mutate.Last(outer, 1, mutate.WireBytes)
	sig, ok2 := mutate.Last(outer, 2, mutate.WireBytes)
	return content, sig, ok1 && ok2
}

// rewrap puts new signed content (and optionally a fresh signature by k) into outer.
func rewrap(outer, content []byte, k crypto.PrivKey) []byte {
	out := mutate.SetField(outer, 1, mutate.WireBytes, content)
	if k != nil {
		sig, err := k.Sign(content)
		if err != nil {
			panic(err)
		}
		out = mutate.SetField(out, 2, mutate.WireBytes, sig)
	}
	return out
}

// decodeWrapper reads signed content and signature with the generated protobuf decoder.
func decodeWrapper(p int, b []byte) (content, sig []byte, err error) {
	switch p {
	case pHdr:
		var m spacesyncproto.RawSpaceHeader
		err = m.UnmarshalVT(b)
		return m.SpaceHeader, m.Signature, err
	case pAcl:
		var m consensusproto.RawRecord
		err = m.UnmarshalVT(b)
		return m.Payload, m.Signature, err
	default:
		var m treechangeproto.RawTreeChange
		err = m.UnmarshalVT(b)
		return m.Payload, m.Signature, err
	}
}
