package c13

import (
	"sync/atomic"
	"testing"

	"verif/harness/internal/vstat"
)

// FuzzValidatePayload (thorough tier): coverage-guided mutation of all six inputs of the
// validator, seeded with one valid payload per constructor. Oracle inside the target: the
// validator never panics, and whatever it accepts is either one of the seed payloads or is
// internally consistent according to the harness reference model.
var fuzzExecs atomic.Int64

func FuzzValidatePayload(f *testing.F) {
	var seeds [][3]part
	for kind := 0; kind < nCtors; kind++ {
		for variant := 0; variant < 2; variant++ {
			reseed(uint64(1000 + kind*2 + variant))
			sp, err := build(canonical(kind, variant))
			if err != nil {
				f.Fatal(err)
			}
			seeds = append(seeds, sp.parts)
			f.Add(sp.parts[pHdr].Bytes, sp.parts[pHdr].Id, sp.parts[pAcl].Bytes, sp.parts[pAcl].Id, sp.parts[pSet].Bytes, sp.parts[pSet].Id)
		}
	}
	f.Fuzz(func(t *testing.T, hdr []byte, hdrId string, acl []byte, aclId string, set []byte, setId string) {
		ps := [3]part{{hdr, hdrId}, {acl, aclId}, {set, setId}}
		err, panicked := validate((&space{}).payloadOf(ps))
		if panicked != nil {
			t.Fatalf("validator panicked: %v", panicked)
		}
		classes := []string{"fuzz-rejected"}
		if err == nil {
			classes = []string{"fuzz-accepted-seed"}
			known := false
			for _, s := range seeds {
				if equalParts(s, ps) {
					known = true
				}
			}
			if !known {
				merr := modelConsistent(ps)
				switch {
				case merr == nil:
					classes = []string{"fuzz-accepted-consistent-variant"}
				case unwrapIs(merr, errUnparsed):
					classes = []string{"fuzz-accepted-unparsed-by-harness"}
				default:
					t.Fatalf("validator accepted a payload the reference model finds inconsistent: %v", merr)
				}
			}
		}
		// workers are killed, not exited: write the counters every so often
		if n := fuzzExecs.Add(1); n%1000 == 0 {
			defer vstat.Flush()
		}
		vstat.Record("FuzzValidatePayload", vstat.Outcome{Sig: vstat.Hash(hdr, hdrId, acl, aclId, set, setId), NonTrivial: err == nil, Classes: classes}, nil)
	})
}
