package c13

// One-to-one derivation: both parties derive byte-identical header, ACL root, settings root,
// ids and keys from (own private key, other's public key); no other pair derives them; the
// two one-to-one types never coincide.

import (
	"fmt"
	"testing"

	"github.com/anyproto/any-sync/commonspace/object/accountdata"
	"github.com/anyproto/any-sync/commonspace/object/acl/list"
	"github.com/anyproto/any-sync/commonspace/object/acl/recordverifier"
	"github.com/anyproto/any-sync/commonspace/spacepayloads"
	"github.com/anyproto/any-sync/consensus/consensusproto"
	"github.com/anyproto/any-sync/util/crypto"
	"pgregory.net/rapid"

	"verif/harness/internal/mutate"
	"verif/harness/internal/vstat"
)

// PairCase: four identities from the key pool (they may coincide, except A != B).
type PairCase struct {
	A int `json:"a"`
	B int `json:"b"`
	C int `json:"c"`
	D int `json:"d"`
}

type pairSpace struct {
	x, y  int // (private key of x, public key of y)
	typ   string
	parts [3]part
}

func derivePair(x, y int, typ string) (*pairSpace, error) {
	var kind = ctorOneToOne
	if typ == spacepayloads.SpaceTypeOneToOneAny {
		kind = ctorOneToOneAny
	}
	// the legacy type is built through both exported entry points alternately
	var sp *space
	var err error
	if kind == ctorOneToOne && (x+y)%2 == 0 {
		out, e := spacepayloads.StoragePayloadForOneToOneSpaceWithType(key(x), key(y).GetPublic(), typ)
		if e != nil {
			return nil, e
		}
		sp = &space{}
		sp.parts[pHdr] = part{out.SpaceHeaderWithId.RawHeader, out.SpaceHeaderWithId.Id}
		sp.parts[pAcl] = part{out.AclWithId.Payload, out.AclWithId.Id}
		sp.parts[pSet] = part{out.SpaceSettingsWithId.RawChange, out.SpaceSettingsWithId.Id}
	} else {
		sp, err = build(Ctor{Kind: kind, Owner: x, Peer: y})
		if err != nil {
			return nil, err
		}
	}
	return &pairSpace{x: x, y: y, typ: typ, parts: sp.parts}, nil
}

// aclKeys builds the ACL list of the one-to-one root as seen by account `who` and returns
// the derived read key and metadata key (nil,nil if the account derives none).
func aclKeys(ps *pairSpace, who int) (read, meta []byte, oneToOne bool, err error) {
	root := &consensusproto.RawRecordWithId{Payload: ps.parts[pAcl].Bytes, Id: ps.parts[pAcl].Id}
	st, err := list.NewInMemoryStorage(root.Id, []*consensusproto.RawRecordWithId{root})
	if err != nil {
		return nil, nil, false, err
	}
	acl, err := list.BuildAclListWithIdentity(accountdata.New(key(who), key(who)), st, recordverifier.NewValidateFull())
	if err != nil {
		return nil, nil, false, err
	}
	state := acl.AclState()
	k, ok := state.Keys()[root.Id]
	if !ok || k.ReadKey == nil {
		return nil, nil, state.IsOneToOne(), nil
	}
	if read, err = k.ReadKey.Raw(); err != nil {
		return nil, nil, false, err
	}
	if k.MetadataPrivKey != nil {
		if meta, err = k.MetadataPrivKey.Raw(); err != nil {
			return nil, nil, false, err
		}
	}
	return read, meta, state.IsOneToOne(), nil
}

// relatedPubs returns public keys algebraically related to pk that a careless key agreement
// could confuse with it: the sign-flipped point -P (same Montgomery u coordinate, hence the
// same X25519 secret). Only encodings that unmarshal as valid ed25519 public keys are returned.
func relatedPubs(pk crypto.PubKey) []crypto.PubKey {
	raw, err := pk.Raw()
	if err != nil || len(raw) != 32 {
		return nil
	}
	neg := append([]byte(nil), raw...)
	neg[31] ^= 0x80
	var out []crypto.PubKey
	if k, err := crypto.UnmarshalEd25519PublicKey(neg); err == nil && !k.Equals(pk) {
		out = append(out, k)
	}
	return out
}

// checkRelated: (x_sk, related(y_pk)) must not derive what (x_sk, y_pk) derives - neither the
// shared owner key, nor header / ACL root / ids, nor the read and metadata keys.
func checkRelated(x, y int, typ string, orig *pairSpace, origRead []byte) (n int, err error) {
	origShared, err := crypto.GenerateSharedKey(key(x), key(y).GetPublic(), crypto.AnysyncOneToOneSpacePath)
	if err != nil {
		return 0, err
	}
	for _, rel := range relatedPubs(key(y).GetPublic()) {
		n++
		sh, err := crypto.GenerateSharedKey(key(x), rel, crypto.AnysyncOneToOneSpacePath)
		if err != nil {
			continue // refusing the related key is fine
		}
		if sh.GetPublic().Equals(origShared.GetPublic()) {
			return n, fmt.Errorf("(%d_sk, -%d_pk) derives the shared owner key of (%d_sk, %d_pk): another key pair derives the same one-to-one space keys", x, y, x, y)
		}
		out, err := spacepayloads.StoragePayloadForOneToOneSpaceWithType(key(x), rel, typ)
		if err != nil {
			continue
		}
		if out.SpaceHeaderWithId.Id == orig.parts[pHdr].Id || out.AclWithId.Id == orig.parts[pAcl].Id || out.SpaceSettingsWithId.Id == orig.parts[pSet].Id {
			return n, fmt.Errorf("type %s: (%d_sk, -%d_pk) derives ids of the space of (%d,%d)", typ, x, y, x, y)
		}
		hc, hc0 := mustContent(out.SpaceHeaderWithId.RawHeader), mustContent(orig.parts[pHdr].Bytes)
		if string(bytesVal(hc, hdrIdentity)) == string(bytesVal(hc0, hdrIdentity)) {
			return n, fmt.Errorf("type %s: (%d_sk, -%d_pk) derives the owner identity of the space of (%d,%d)", typ, x, y, x, y)
		}
		ps := &pairSpace{x: x, y: -1, typ: typ}
		ps.parts[pAcl] = part{out.AclWithId.Payload, out.AclWithId.Id}
		r, _, _, err := aclKeys(ps, x)
		if err == nil && r != nil && string(r) == string(origRead) {
			return n, fmt.Errorf("type %s: (%d_sk, -%d_pk) derives the read key of the space of (%d,%d)", typ, x, y, x, y)
		}
	}
	return n, nil
}

func runPairs(c PairCase) (vstat.Outcome, error) {
	var out vstat.Outcome
	a, b, cc, d := mutate.Mod(c.A, keyPool), mutate.Mod(c.B, keyPool), mutate.Mod(c.C, keyPool), mutate.Mod(c.D, keyPool)
	if a == b {
		b = mutate.Mod(a+1, keyPool)
	}
	reseed(uint64(a*1000 + b))
	types := []string{spacepayloads.SpaceTypeOneToOne, spacepayloads.SpaceTypeOneToOneAny}
	var all []*pairSpace
	derive := func(x, y int, typ string) (*pairSpace, error) {
		if x == y {
			return nil, nil // a space with oneself is not a one-to-one space
		}
		ps, err := derivePair(x, y, typ)
		if err != nil {
			return nil, fmt.Errorf("derive (%d_sk,%d_pk,%s): %w", x, y, typ, err)
		}
		if err, p := validate((&space{}).payloadOf(ps.parts)); err != nil || p != nil {
			return nil, fmt.Errorf("derived (%d_sk,%d_pk,%s) payload does not validate: err=%v panic=%v", x, y, typ, err, p)
		}
		all = append(all, ps)
		return ps, nil
	}
	var readAB []byte
	related := 0
	for _, typ := range types {
		ab, err := derive(a, b, typ)
		if err != nil {
			return out, err
		}
		ba, err := derive(b, a, typ)
		if err != nil {
			return out, err
		}
		for p := 0; p < 3; p++ {
			if string(ab.parts[p].Bytes) != string(ba.parts[p].Bytes) {
				return out, fmt.Errorf("type %s: %s bytes differ between (a_sk,b_pk) and (b_sk,a_pk), a=%d b=%d", typ, partNames[p], a, b)
			}
			if ab.parts[p].Id != ba.parts[p].Id {
				return out, fmt.Errorf("type %s: %s id differs between (a_sk,b_pk) and (b_sk,a_pk): %s vs %s", typ, partNames[p], ab.parts[p].Id, ba.parts[p].Id)
			}
		}
		// keys: both parties derive the same read and metadata key from the root; a third party none
		ra, ma, o1, err := aclKeys(ab, a)
		if err != nil {
			return out, fmt.Errorf("party a cannot build the ACL of its own one-to-one space: %w", err)
		}
		rb, mb, _, err := aclKeys(ba, b)
		if err != nil {
			return out, fmt.Errorf("party b cannot build the ACL of its own one-to-one space: %w", err)
		}
		if ra == nil || ma == nil || string(ra) != string(rb) || string(ma) != string(mb) {
			return out, fmt.Errorf("type %s: parties derive different keys: read %x vs %x, metadata %x vs %x", typ, ra, rb, ma, mb)
		}
		if !o1 {
			return out, fmt.Errorf("type %s: ACL built from the derived root is not a one-to-one ACL", typ)
		}
		if readAB != nil && string(readAB) != string(ra) {
			// both types share the ACL root, hence the keys
			return out, fmt.Errorf("the two one-to-one types derive different read keys for the same pair")
		}
		readAB = ra
		// related public keys, in both roles
		n1, err := checkRelated(a, b, typ, ab, ra)
		if err != nil {
			return out, err
		}
		n2, err := checkRelated(b, a, typ, ab, ra)
		if err != nil {
			return out, err
		}
		related += n1 + n2
		if cc != a && cc != b {
			rc, mc, _, err := aclKeys(ab, cc)
			if err == nil && (rc != nil || mc != nil) {
				return out, fmt.Errorf("type %s: third party %d derives keys from the root of (%d,%d)", typ, cc, a, b)
			}
		}
		// other pairs
		for _, pr := range [][2]int{{a, cc}, {cc, b}, {cc, d}, {d, cc}} {
			ps, err := derive(pr[0], pr[1], typ)
			if err != nil {
				return out, err
			}
			if ps == nil {
				continue
			}
			r, _, _, err := aclKeys(ps, pr[0])
			if err != nil {
				return out, fmt.Errorf("party %d cannot build the ACL of (%d,%d): %w", pr[0], pr[0], pr[1], err)
			}
			samePair := (pr[0] == a && pr[1] == b) || (pr[0] == b && pr[1] == a)
			if !samePair && string(r) == string(ra) {
				return out, fmt.Errorf("pair (%d,%d) derives the read key of pair (%d,%d)", pr[0], pr[1], a, b)
			}
		}
	}
	// ids coincide exactly for the same unordered pair and the same type
	for i, p := range all {
		for _, q := range all[i+1:] {
			same := p.typ == q.typ && ((p.x == q.x && p.y == q.y) || (p.x == q.y && p.y == q.x))
			if same != (p.parts[pHdr].Id == q.parts[pHdr].Id) {
				return out, fmt.Errorf("space ids of (%d,%d,%s) and (%d,%d,%s): %s vs %s, expected equal=%v",
					p.x, p.y, p.typ, q.x, q.y, q.typ, p.parts[pHdr].Id, q.parts[pHdr].Id, same)
			}
			if same != (string(p.parts[pHdr].Bytes) == string(q.parts[pHdr].Bytes)) {
				return out, fmt.Errorf("headers of (%d,%d,%s) and (%d,%d,%s): equality %v expected", p.x, p.y, p.typ, q.x, q.y, q.typ, same)
			}
			samePair := (p.x == q.x && p.y == q.y) || (p.x == q.y && p.y == q.x)
			if samePair != (p.parts[pAcl].Id == q.parts[pAcl].Id) || samePair != (p.parts[pSet].Id == q.parts[pSet].Id) {
				return out, fmt.Errorf("ACL/settings roots of (%d,%d,%s) and (%d,%d,%s): equality %v expected", p.x, p.y, p.typ, q.x, q.y, q.typ, samePair)
			}
		}
	}
	out.Sig = vstat.Hash("pairs", a, b, cc, d)
	out.NonTrivial = cc != a && cc != b && d != cc
	out.Classes = []string{"one-to-one"}
	if cc == a || cc == b || d == a || d == b {
		out.Classes = append(out.Classes, "one-to-one-overlapping-pairs")
	}
	if out.NonTrivial {
		out.Classes = append(out.Classes, "one-to-one-third-parties")
	}
	if related > 0 {
		out.Classes = append(out.Classes, "one-to-one-related-public-key")
		vstat.Count("one_to_one_related_keys", int64(related))
	}
	vstat.Count("one_to_one_payloads", int64(len(all)))
	return out, nil
}

func genPairs(rt *rapid.T) PairCase {
	return PairCase{
		A: rapid.IntRange(0, keyPool-1).Draw(rt, "a"), B: rapid.IntRange(0, keyPool-1).Draw(rt, "b"),
		C: rapid.IntRange(0, keyPool-1).Draw(rt, "c"), D: rapid.IntRange(0, keyPool-1).Draw(rt, "d"),
	}
}

func TestOneToOne(t *testing.T) { vstat.Check(t, prop, genPairs, runPairs) }

// every ordered pair (a,b) of the key pool with two rotating third parties
func TestOneToOneExhaustive(t *testing.T) {
	mine := shardFilter()
	i := 0
	vstat.Enumerate(t, prop, func(yield func(PairCase) bool) {
		for a := 0; a < keyPool; a++ {
			for b := 0; b < keyPool; b++ {
				if a == b {
					continue
				}
				i++
				if !mine(i) {
					continue
				}
				if !yield(PairCase{A: a, B: b, C: (a + b) % keyPool, D: (a*b + 1) % keyPool}) {
					return
				}
			}
		}
	}, runPairs)
}
