// Package c04 decides property C04: in a fully validating ACL no constructible record —
// including records that skip the client-side builder — bypasses the privilege rules.
// The oracle is a transition invariant over public observers; no acceptance model.
package c04

import (
	"errors"
	"fmt"
	"sort"
	"strings"
	"testing"

	"github.com/anyproto/any-sync/commonspace/object/acl/aclrecordproto"
	"github.com/anyproto/any-sync/commonspace/object/acl/list"
	"pgregory.net/rapid"

	"verif/harness/internal/aclgen"
	"verif/harness/internal/vstat"
)

const prop = "C04"

var outerT *testing.T

func TestMain(m *testing.M) { vstat.Main(m, prop) }

type Step struct {
	Op *aclgen.Op    `json:"op,omitempty"`
	F  *aclgen.Forge `json:"forge,omitempty"`
}

type Case struct {
	Seed    uint64 `json:"seed"`
	N       int    `json:"n"`
	Prelude bool   `json:"prelude"`
	Steps   []Step `json:"steps"`
}

// prelude: owner 0; 1,2 admins; 3 writer; 4 reader; 5 guest; 6 removed member; 7 pending joiner; 8 outsider;
// a pending join request by 7 is NOT created (generated steps do that), but one live
// invite of each kind exists.
func prelude() []aclgen.Op {
	return []aclgen.Op{
		{Kind: "add", Actor: 0, Target: 1, Perm: aclgen.Admin},
		{Kind: "add", Actor: 0, Target: 2, Perm: aclgen.Admin},
		{Kind: "add", Actor: 0, Target: 3, Perm: aclgen.Writer},
		{Kind: "add", Actor: 0, Target: 4, Perm: aclgen.Reader},
		{Kind: "add", Actor: 0, Target: 5, Perm: aclgen.Guest},
		{Kind: "add", Actor: 0, Target: 6, Perm: aclgen.Writer},
		{Kind: "remove", Actor: 0, Target: 6},
		{Kind: "invite", Actor: 1},
		{Kind: "invite_anyone", Actor: 0, Perm: aclgen.Writer},
		{Kind: "request_join", Actor: 7, Ref: 0},
	}
}

// the kinds that move permissions are drawn more often
var weightedKinds = append(append([]string{}, aclgen.ForgeKinds...),
	"request_accept", "request_accept", "accounts_add", "account_remove", "perm_change", "ownership", "invite", "invite_join", "invite_change")

func genForge(rt *rapid.T, n int) *aclgen.Forge {
	f := &aclgen.Forge{Author: rapid.IntRange(0, n-1).Draw(rt, "author")}
	k := rapid.SampledFrom([]int{1, 1, 1, 1, 2, 2, 3}).Draw(rt, "ncontents")
	for i := 0; i < k; i++ {
		f.Contents = append(f.Contents, aclgen.FContent{
			Kind:    rapid.SampledFrom(weightedKinds).Draw(rt, "fk"),
			Target:  rapid.IntRange(0, n-1).Draw(rt, "ft"),
			T2:      rapid.IntRange(0, n-1).Draw(rt, "ft2"),
			Perm:    rapid.IntRange(0, 5).Draw(rt, "fp"),
			Ref:     rapid.IntRange(-5, 4).Draw(rt, "fr"),
			Variant: rapid.IntRange(0, 20).Draw(rt, "fv"),
		})
	}
	return f
}

func genCase(rt *rapid.T) Case {
	n := 9
	c := Case{Seed: rapid.Uint64Range(1, 1<<40).Draw(rt, "seed"), N: n, Prelude: rapid.IntRange(0, 9).Draw(rt, "prelude") != 0}
	depth := rapid.IntRange(1, vstat.Pick(7, 12)).Draw(rt, "depth")
	// builder-made legal steps reach rich states (pending join and remove requests, more invites)
	setup := aclgen.GenOps(rt, n, 0, vstat.Pick(6, 10))
	for i := range setup {
		op := setup[i]
		c.Steps = append(c.Steps, Step{Op: &op})
	}
	for i := 0; i < depth; i++ {
		switch rapid.IntRange(0, 9).Draw(rt, "stepkind") {
		case 0: // a pending leave request by a member (admins included)
			c.Steps = append(c.Steps, Step{Op: &aclgen.Op{Kind: "request_remove", Actor: rapid.IntRange(1, n-1).Draw(rt, "leaver")}})
		case 1: // a pending join request
			c.Steps = append(c.Steps, Step{Op: &aclgen.Op{Kind: "request_join", Actor: rapid.IntRange(5, n-1).Draw(rt, "joiner"), Ref: rapid.IntRange(-1, 1).Draw(rt, "inv")}})
		case 5: // a member asks to leave; somebody immediately aims a hand-made record at it
			l := rapid.IntRange(1, n-1).Draw(rt, "leaver2")
			c.Steps = append(c.Steps, Step{Op: &aclgen.Op{Kind: "request_remove", Actor: l}},
				Step{F: &aclgen.Forge{Author: rapid.IntRange(0, n-1).Draw(rt, "aimAuthor"), Contents: []aclgen.FContent{{
					Kind:   rapid.SampledFrom([]string{"accounts_add", "accounts_add", "perm_change", "account_remove", "request_accept", "request_decline", "ownership"}).Draw(rt, "aimKind"),
					Target: l, T2: l, Perm: rapid.IntRange(0, 5).Draw(rt, "aimPerm"), Ref: rapid.IntRange(-2, 3).Draw(rt, "aimRef"), Variant: rapid.IntRange(0, 20).Draw(rt, "aimVariant")}}}})
		case 4: // a hand-made invite of any shape, immediately used by somebody
			inv := &aclgen.Forge{Author: rapid.IntRange(0, n-1).Draw(rt, "invAuthor"), Contents: []aclgen.FContent{{
				Kind: "invite", Perm: rapid.IntRange(0, 5).Draw(rt, "invPerm"), Variant: rapid.IntRange(0, 7).Draw(rt, "invVariant")}}}
			join := &aclgen.Forge{Author: rapid.IntRange(3, n-1).Draw(rt, "joiner"), Contents: []aclgen.FContent{{
				Kind: rapid.SampledFrom([]string{"invite_join", "invite_join", "request_join"}).Draw(rt, "joinKind"), Ref: 1000,
				Perm: rapid.IntRange(0, 5).Draw(rt, "joinPerm"), Variant: rapid.SampledFrom([]int{0, 0, 0, 1, 3, 6}).Draw(rt, "joinVariant")}}}
			c.Steps = append(c.Steps, Step{F: inv}, Step{F: join})
		case 6: // the owner hands the space over and, in the same hand-made record, goes on acting
			second := aclgen.FContent{
				Kind:   rapid.SampledFrom([]string{"ownership", "ownership", "perm_change", "perm_change", "accounts_add", "account_remove", "options", "invite", "invite_change", "invite_revoke", "request_accept", "request_decline", "perm_changes"}).Draw(rt, "hoKind"),
				Target: rapid.IntRange(0, n-1).Draw(rt, "hoTarget"), T2: rapid.IntRange(0, n-1).Draw(rt, "hoT2"),
				Perm: rapid.IntRange(0, 5).Draw(rt, "hoPerm"), Ref: rapid.IntRange(-2, 3).Draw(rt, "hoRef"), Variant: rapid.IntRange(0, 20).Draw(rt, "hoVariant")}
			c.Steps = append(c.Steps, Step{F: &aclgen.Forge{Author: aclgen.AuthorOwner, Contents: []aclgen.FContent{
				{Kind: "ownership", Target: rapid.IntRange(1, 4).Draw(rt, "hoNew"), Perm: rapid.SampledFrom([]int{aclgen.Admin, aclgen.Writer, aclgen.Reader}).Draw(rt, "hoOld")}, second}}})
		case 7: // a join request is settled by another route; the requester's role changes; a manager then
			// aims a hand-made accept / decline at the settled request
			x := rapid.IntRange(5, n-1).Draw(rt, "sx")
			c.Steps = append(c.Steps, Step{Op: &aclgen.Op{Kind: "invite", Actor: 0}}, Step{Op: &aclgen.Op{Kind: "request_join", Actor: x, Ref: -1}})
			if rapid.Bool().Draw(rt, "sroute") {
				c.Steps = append(c.Steps, Step{Op: &aclgen.Op{Kind: "invite_anyone", Actor: 0, Perm: rapid.SampledFrom([]int{aclgen.Reader, aclgen.Writer, aclgen.Admin}).Draw(rt, "sp")}},
					Step{Op: &aclgen.Op{Kind: "invite_join", Actor: x, Ref: -1}})
			} else {
				c.Steps = append(c.Steps, Step{Op: &aclgen.Op{Kind: "add", Actor: 0, Target: x, Perm: rapid.SampledFrom([]int{aclgen.Reader, aclgen.Writer, aclgen.Admin}).Draw(rt, "sp2")}})
			}
			switch rapid.IntRange(0, 3).Draw(rt, "srole") {
			case 0:
				c.Steps = append(c.Steps, Step{Op: &aclgen.Op{Kind: "perm_change", Actor: 0, Target: x, Perm: aclgen.Admin}})
			case 1:
				c.Steps = append(c.Steps, Step{Op: &aclgen.Op{Kind: "ownership", Actor: 0, Target: x, Perm: aclgen.Admin}})
			case 2:
				c.Steps = append(c.Steps, Step{Op: &aclgen.Op{Kind: "perm_change", Actor: 0, Target: x, Perm: rapid.SampledFrom([]int{aclgen.Reader, aclgen.Writer}).Draw(rt, "sp3")}})
			}
			c.Steps = append(c.Steps, Step{F: &aclgen.Forge{Author: rapid.SampledFrom([]int{aclgen.AuthorAdmin, aclgen.AuthorAdmin, aclgen.AuthorOwner, 1, 2, 3}).Draw(rt, "sauthor"), Contents: []aclgen.FContent{{
				Kind: rapid.SampledFrom([]string{"request_accept", "request_accept", "request_decline"}).Draw(rt, "skind"), Target: x,
				Perm: rapid.IntRange(0, 5).Draw(rt, "sperm"), Ref: -1, Variant: rapid.SampledFrom([]int{15, 16, 18, 19}).Draw(rt, "svariant")}}}})
		case 3: // the owner adds somebody directly (possibly an account with a pending request)
			c.Steps = append(c.Steps, Step{Op: &aclgen.Op{Kind: "add", Actor: 0, Target: rapid.IntRange(5, n-1).Draw(rt, "added"), Perm: rapid.SampledFrom([]int{aclgen.Admin, aclgen.Writer, aclgen.Reader}).Draw(rt, "addperm")}})
		case 2:
			ops := aclgen.GenOps(rt, n, 1, 1)
			c.Steps = append(c.Steps, Step{Op: &ops[0]})
		default:
			c.Steps = append(c.Steps, Step{F: genForge(rt, n)})
		}
	}
	return c
}

// ---- public observers ------------------------------------------------------------------

type view struct {
	perm    map[string]int    // account id -> permission (accounts known to the ACL)
	status  map[string]int    // account id -> status
	invites map[string]string // invite id -> "type/perm/key"
	reqs    map[string]string // request id -> "join|leave/identity"
	owners  []string
	owner   string
	options string
}

func observe(l list.AclList) view {
	st := l.AclState()
	v := view{perm: map[string]int{}, status: map[string]int{}, invites: map[string]string{}, reqs: map[string]string{}}
	for _, a := range st.CurrentAccounts() {
		id := a.PubKey.Account()
		v.perm[id] = int(a.Permissions)
		v.status[id] = int(a.Status)
		if a.Permissions.IsOwner() {
			v.owners = append(v.owners, id)
		}
	}
	sort.Strings(v.owners)
	for _, inv := range st.Invites() {
		v.invites[inv.Id] = fmt.Sprintf("%d/%d/%s", inv.Type, inv.Permissions, inv.Key.Account())
	}
	joins, _ := st.JoinRecords(false)
	for _, r := range joins {
		v.reqs[r.RecordId] = "join/" + r.RequestIdentity.Account()
	}
	for _, r := range st.RemoveRecords() {
		v.reqs[r.RecordId] = "leave/" + r.RequestIdentity.Account()
	}
	if pk, err := st.OwnerPubKey(); err == nil {
		v.owner = pk.Account()
	}
	if o := st.CurrentOptions(); o != nil {
		v.options = fmt.Sprint(o.DeleteRestricted)
	}
	return v
}

func canManage(p int) bool { return p == aclgen.Owner || p == aclgen.Admin }

// rank orders permissions for "at most the invite's permissions".
func rank(p int) int {
	switch p {
	case aclgen.None:
		return 0
	case aclgen.Guest:
		return 1
	case aclgen.Reader:
		return 1
	case aclgen.Writer:
		return 2
	case aclgen.Admin:
		return 3
	case aclgen.Owner:
		return 4
	}
	return 5
}

// checkTransition is the statement of C04 as an invariant over (before, author, after).
// A record may carry several contents, which the ACL applies in order: what a multi-content
// record does is what the same contents would do as consecutive records. Two compositions are
// therefore legitimate although the before/after comparison of the whole record looks like a
// breach: (1) an outsider whose FIRST content joins through a live open invite acts, for the
// rest of the record, with the permission the invite gave it; (2) an identity that the record
// removes and then adds again is a fresh member (a removed guest is no longer a guest).
// removedAndAdded holds the account ids named by both an account_remove and an accounts_add
// content of the record.
func checkTransition(b, a view, author string, removedAndAdded map[string]bool) error {
	if len(b.owners) != 1 || len(a.owners) != 1 {
		return fmt.Errorf("exactly one owner must exist: before %v, after %v", b.owners, a.owners)
	}
	ap := b.perm[author] // author's permission before the record
	if ap == aclgen.None && a.perm[author] != aclgen.None {
		// composition (1): judged below against the live open invites; the remaining contents
		// are judged with the permission the join gave
		ap = a.perm[author]
	}
	isOwner := ap == aclgen.Owner
	ids := map[string]bool{}
	for id := range b.perm {
		ids[id] = true
	}
	for id := range a.perm {
		ids[id] = true
	}
	for id := range ids {
		pb, pa := b.perm[id], a.perm[id]
		sb, sa := b.status[id], a.status[id]
		// only the owner grants or revokes Admin, by any route
		// (an outsider joining through a live open invite is the invite's author granting the
		// role: checked below — the join is bounded by the invite, and Admin invites are owner-only)
		selfJoin := id == author && pb == aclgen.None
		if (pb == aclgen.Admin) != (pa == aclgen.Admin) && !isOwner && !selfJoin {
			return fmt.Errorf("account %s: Admin role %s by a non-owner author (author permission %s)", id, grantWord(pb, pa), aclgen.PermNames[ap])
		}
		// ownership is only transferred by the owner; the owner is never demoted / removed by others
		if (pb == aclgen.Owner) != (pa == aclgen.Owner) && !isOwner {
			return fmt.Errorf("account %s: ownership changed (%s -> %s) by non-owner author", id, aclgen.PermNames[pb], aclgen.PermNames[pa])
		}
		// guests are never re-permissioned (only removed)
		if pb == aclgen.Guest && pa != aclgen.Guest && pa != aclgen.None && !removedAndAdded[id] {
			return fmt.Errorf("guest %s re-permissioned to %s", id, aclgen.PermNames[pa])
		}
		if id != author && (pb != pa || sb != sa) && !canManage(ap) {
			return fmt.Errorf("account %s changed (perm %s->%s, status %d->%d) by author %s who cannot manage accounts (%s)",
				id, aclgen.PermNames[pb], aclgen.PermNames[pa], sb, sa, author, aclgen.PermNames[ap])
		}
	}
	if b.owner != a.owner && !isOwner {
		return fmt.Errorf("owner changed %s -> %s by non-owner", b.owner, a.owner)
	}
	if b.options != a.options && !isOwner {
		return fmt.Errorf("space options changed by non-owner (%s)", aclgen.PermNames[ap])
	}
	// invites are managed by owners and admins only
	if !mapsEqual(b.invites, a.invites) && !canManage(ap) {
		return fmt.Errorf("invites changed by author who cannot manage accounts (%s): %v -> %v", aclgen.PermNames[ap], b.invites, a.invites)
	}
	// an invite that grants Admin is created / changed by the owner only (Admin "by any route")
	for id, inv := range a.invites {
		if b.invites[id] == inv {
			continue
		}
		var typ, p int
		fmt.Sscanf(inv, "%d/%d/", &typ, &p)
		if p == aclgen.Admin && typ == int(aclrecordproto.AclInviteType_AnyoneCanJoin) && !isOwner {
			return fmt.Errorf("invite %s granting Admin created or changed by a non-owner (%s)", id, aclgen.PermNames[ap])
		}
	}
	// requests: a non-manager may only add or withdraw its own request
	if !canManage(ap) {
		for id, r := range b.reqs {
			if _, still := a.reqs[id]; !still && !strings.HasSuffix(r, "/"+author) {
				return fmt.Errorf("request %s (%s) approved/declined/removed by author %s who cannot manage accounts", id, r, author)
			}
		}
		for id, r := range a.reqs {
			if _, was := b.reqs[id]; !was && !strings.HasSuffix(r, "/"+author) {
				return fmt.Errorf("request %s (%s) created on behalf of another account by %s", id, r, author)
			}
		}
	}
	// the author itself
	pb, pa := b.perm[author], a.perm[author]
	switch {
	case pb == aclgen.None && pa != aclgen.None:
		// an outsider gains access only through a live open invite, with at most its permissions
		best := 0
		for _, inv := range b.invites {
			var typ, p int
			fmt.Sscanf(inv, "%d/%d/", &typ, &p)
			if typ == int(aclrecordproto.AclInviteType_AnyoneCanJoin) && rank(p) > best {
				best = rank(p)
			}
		}
		if best == 0 {
			return fmt.Errorf("outsider %s gained %s although no open invite was live", author, aclgen.PermNames[pa])
		}
		if rank(pa) > best {
			return fmt.Errorf("outsider %s gained %s, more than any live open invite grants", author, aclgen.PermNames[pa])
		}
	case pb != aclgen.None && !canManage(pb) && pb != pa && !removedAndAdded[author]:
		return fmt.Errorf("ordinary member %s changed its own permission %s -> %s", author, aclgen.PermNames[pb], aclgen.PermNames[pa])
	}
	return nil
}

func grantWord(pb, pa int) string {
	if pa == aclgen.Admin {
		return "granted"
	}
	return "revoked"
}

func mapsEqual(a, b map[string]string) bool {
	if len(a) != len(b) {
		return false
	}
	for k, v := range a {
		if b[k] != v {
			return false
		}
	}
	return true
}

// known finding signatures (excluded by construction when listed in known_findings.json)
const sigAcceptLeave = "request-accept-names-leave-request"

func run(c Case) (vstat.Outcome, error) {
	var out vstat.Outcome
	classes := map[string]bool{}
	nForged, nForgedReached, nAccepted := 0, 0, 0
	err := aclgen.Bubble(outerT, func() error {
		w, err := aclgen.NewWorld(c.N, c.Seed, false)
		if err != nil {
			return err
		}
		var steps []Step
		if c.Prelude {
			for _, op := range prelude() {
				op := op
				steps = append(steps, Step{Op: &op})
			}
		}
		steps = append(steps, c.Steps...)
		for si, s := range steps {
			before := observe(w.Lists[w.Ref()])
			digBefore := aclgen.Digest(w.Lists[w.Ref()])
			var author int
			var accepted bool
			var rejErr error
			what := ""
			if s.Op != nil {
				author = ((s.Op.Actor % c.N) + c.N) % c.N
				st, err := w.Apply(*s.Op)
				if err != nil {
					return err
				}
				accepted = st.Accepted
				what = fmt.Sprintf("builder op %+v", *s.Op)
			} else if s.F != nil {
				author = w.ResolveAuthor(s.F.Author)
				f := *s.F
				if vstat.KnownSignature(prop, sigAcceptLeave) {
					// exclude exactly the known finding: an accept naming a pending leave request
					if namesLeaveRequest(w, f) {
						out.Excluded = sigAcceptLeave
						continue
					}
				}
				accepted, rejErr, err = w.ApplyForge(f)
				if err != nil {
					return err
				}
				nForged++
				what = fmt.Sprintf("forged record %+v", f)
				if accepted || isContentVerdict(rejErr) {
					nForgedReached++
				}
				for _, fc := range f.Contents {
					cl := "forged-" + fc.Kind
					if accepted {
						cl += "-accepted"
					}
					classes[cl] = true
				}
				if len(f.Contents) > 1 {
					classes["forged-batched"] = true
				}
			} else {
				continue
			}
			authorId := w.Keys[author].SignKey.GetPublic().Account()
			if !accepted {
				if d := aclgen.Digest(w.Lists[w.Ref()]); d != digBefore {
					return fmt.Errorf("step %d: rejected %s (err=%v) changed the state:\n%s\n--- before ---\n%s", si, what, rejErr, d, digBefore)
				}
				continue
			}
			nAccepted++
			after := observe(w.Lists[w.Ref()])
			classes["author-"+aclgen.PermNames[before.perm[authorId]]] = true
			ra := map[string]bool{}
			if s.F != nil {
				rm, ad := map[int]bool{}, map[int]bool{}
				for _, fc := range s.F.Contents {
					t, t2 := ((fc.Target%c.N)+c.N)%c.N, ((fc.T2%c.N)+c.N)%c.N
					switch fc.Kind {
					case "account_remove":
						rm[t] = true
						rm[t2] = true
					case "accounts_add":
						ad[t] = true
						ad[t2] = true
					}
				}
				for i := range rm {
					if ad[i] {
						ra[w.Keys[i].SignKey.GetPublic().Account()] = true
					}
				}
			}
			if err := checkTransition(before, after, authorId, ra); err != nil {
				return fmt.Errorf("step %d: fully validating ACL accepted %s by account %d (%s before): %v", si, what, author, aclgen.PermNames[before.perm[authorId]], err)
			}
		}
		out.Sig = vstat.Hash(w.Head(), len(w.Records))
		return nil
	})
	if err != nil {
		return out, err
	}
	out.NonTrivial = nForgedReached >= 1
	for k := range classes {
		out.Classes = append(out.Classes, k)
	}
	vstat.Count("forged_records", int64(nForged))
	vstat.Count("forged_reaching_content_rules", int64(nForgedReached))
	vstat.Count("accepted_records_checked", int64(nAccepted))
	return out, nil
}

// namesLeaveRequest reports whether a forged record contains a request_accept whose
// request id resolves to a pending leave (remove) request.
func namesLeaveRequest(w *aclgen.World, f aclgen.Forge) bool {
	for _, fc := range f.Contents {
		if fc.Kind != "request_accept" {
			continue
		}
		c, err := w.BuildContent(f.Author, fc)
		if err != nil {
			continue
		}
		id := c.GetRequestAccept().GetRequestRecordId()
		for _, r := range w.Lists[w.Ref()].AclState().RemoveRecords() {
			if r.RecordId == id {
				return true
			}
		}
	}
	return false
}

// isContentVerdict: the record got as far as the privilege / content rules.
func isContentVerdict(err error) bool {
	for _, e := range []error{list.ErrInsufficientPermissions, list.ErrNoSuchAccount, list.ErrNoSuchInvite, list.ErrNoSuchRequest,
		list.ErrIsOwner, list.ErrDuplicateAccounts, list.ErrIncorrectNumberOfAccounts, list.ErrPendingRequest, list.ErrIncorrectIdentity,
		list.ErrInvalidSignature, list.ErrIncorrectReadKey, list.ErrNoMetadataKey} {
		if errors.Is(err, e) {
			return true
		}
	}
	return false
}

func TestRandom(t *testing.T) {
	outerT = t
	vstat.Check(t, prop, genCase, run)
}

func TestReplay(t *testing.T) {
	outerT = t
	t.Run("TestRandom", func(t *testing.T) { vstat.Replay(t, prop, "TestRandom", run) })
}

// Regressions: minimised failures found by TestRandom on the pinned tree, repaired by
// "fix:" commits in /repo (see known_findings.json). They must pass.
func TestRegOwnershipToGuest(t *testing.T) {
	outerT = t
	vstat.One(t, prop, Case{Seed: 3, N: 9, Prelude: true, Steps: []Step{
		{F: &aclgen.Forge{Author: 0, Contents: []aclgen.FContent{{Kind: "ownership", Target: 5, Perm: aclgen.Admin}}}},
	}}, run)
}

func TestRegAcceptLeaveRequest(t *testing.T) {
	outerT = t
	vstat.One(t, prop, Case{Seed: 4, N: 9, Prelude: true, Steps: []Step{
		{Op: &aclgen.Op{Kind: "request_remove", Actor: 1}},
		{F: &aclgen.Forge{Author: 2, Contents: []aclgen.FContent{{Kind: "request_accept", Target: 1, Perm: aclgen.Reader, Ref: 0, Variant: 2}}}},
	}}, run)
}

func TestRegGuestLeaveAccepted(t *testing.T) {
	outerT = t
	// a reader that asked to leave is "accepted" as a writer by an admin
	vstat.One(t, prop, Case{Seed: 5, N: 9, Prelude: true, Steps: []Step{
		{Op: &aclgen.Op{Kind: "request_remove", Actor: 4}},
		{F: &aclgen.Forge{Author: 1, Contents: []aclgen.FContent{{Kind: "request_accept", Target: 4, Perm: aclgen.Admin, Ref: 0, Variant: 2}}}},
	}}, run)
}

// found by the thorough tier: a batch that removes a guest and re-permissions it in the same record
func TestRegRemoveThenRepermissionGuest(t *testing.T) {
	outerT = t
	vstat.One(t, prop, Case{Seed: 6, N: 9, Prelude: true, Steps: []Step{
		{F: &aclgen.Forge{Author: 1, Contents: []aclgen.FContent{
			{Kind: "account_remove", Target: 5, T2: 6, Perm: 3, Ref: -2, Variant: 17},
			{Kind: "perm_changes", Target: 5, T2: 4, Perm: 4, Ref: 1, Variant: 11}}}},
		{F: &aclgen.Forge{Author: 0, Contents: []aclgen.FContent{{Kind: "perm_change", Target: 6, Perm: aclgen.Writer}}}},
	}}, run)
}

// reported by an independent seeding agent as already failing on the pinned tree: an account
// with a pending join request is added directly as Admin by the owner; the stale request stays,
// and a non-owner admin "accepts" it later with Reader, demoting that admin.
func TestRegStaleJoinRequestAfterDirectAdd(t *testing.T) {
	outerT = t
	vstat.One(t, prop, Case{Seed: 8, N: 9, Prelude: true, Steps: []Step{
		// prelude leaves account 7 with a pending join request
		{Op: &aclgen.Op{Kind: "add", Actor: 0, Target: 7, Perm: aclgen.Admin}},
		{F: &aclgen.Forge{Author: 1, Contents: []aclgen.FContent{{Kind: "request_accept", Target: 7, Perm: aclgen.Reader, Ref: 0, Variant: 1}}}},
	}}, run)
}
