// Package c16 decides property C16 (object cache: at most one live instance per id under
// any interleaving) by owning the schedule: the cache's LoadFunc and the cached Objects are
// harness code whose blocking points are gates of internal/sched, every cache operation
// runs in its own goroutine inside a testing/synctest bubble, and a generated schedule
// (plain integers) decides which gate opens next. The oracle is a set of invariants over
// the logical-time history of callback entries/exits and operation starts/returns, read
// off the property statement (see check.json "rule").
package c16

import (
	"context"
	"errors"
	"fmt"
	"sync"
	"testing"
	"time"

	"github.com/anyproto/any-sync/app/logger"
	"github.com/anyproto/any-sync/app/ocache"

	"verif/harness/internal/sched"
	"verif/harness/internal/vstat"
)

const prop = "C16"

func TestMain(m *testing.M) {
	// the cache's package-level logger prints DEBUG lines by default
	logger.SetNamedLevels([]logger.NamedLevel{{Name: "*", Level: "fatal"}})
	vstat.Main(m, prop)
}

// ---- case (plain data) -------------------------------------------------------------------

// Operation kinds (whatever ocache.OCache offers).
const (
	kGet      = "get"      // Get(ctx,id)
	kPick     = "pick"     // Pick(ctx,id)
	kAdd      = "add"      // Add(id, fresh instance)
	kRemove   = "remove"   // Remove(ctx,id)
	kRmSame   = "rmsame"   // RemoveSame(ctx,id, the instance currently live under id as known at op start)
	kRmStale  = "rmstale"  // RemoveSame(ctx,id, an instance of id already closed earlier / never cached)
	kTryRm    = "tryrm"    // TryRemove(id)
	kGC       = "gc"       // GC()
	kClose    = "close"    // Close()
	kDoLocked = "dolocked" // DoLockedIfNotExists(id, non-blocking action)
	kForEach  = "foreach"  // ForEach(collect)
	kLen      = "len"      // Len()
)

// Load outcomes.
const (
	ldValue    = 0 // returns a fresh instance
	ldErr      = 1 // returns its own error
	ldNil      = 2 // returns (nil, nil)
	ldCtxAware = 3 // returns ctx.Err() as soon as its ctx is done while in flight, else a fresh instance
	ldCtxAtEnd = 4 // ignores ctx while in flight; at its end returns ctx.Err() if ctx is done, else a fresh instance
)

// TryClose verdicts.
const (
	tryBusy      = 0 // (false, nil)
	tryClosed    = 1 // (true, nil)
	tryClosedErr = 2 // (true, err): closed, closing reported an error (what every TryClose in the repo does: `return true, x.Close()`)
)

type Op struct {
	K      string `json:"k"`
	Id     int    `json:"id,omitempty"`     // 0 -> "a", 1 -> "b"
	Cancel bool   `json:"cancel,omitempty"` // the op's ctx can be cancelled: a "cancel" event is schedulable while the op runs
}

type Case struct {
	Pre      []Op  `json:"pre,omitempty"` // prelude: get/add/remove run one at a time to completion (loads succeed)
	Age      bool  `json:"age,omitempty"` // advance the fake clock past the TTL after the prelude (entries become GC-eligible)
	Ops      []Op  `json:"ops"`           // the concurrent operations, started in this order by "start" choices
	Sched    []int `json:"sched"`         // each taken modulo the number of choices at that step; afterwards the drain takes choice 0
	Loads    []int `json:"loads,omitempty"`
	Try      []int `json:"try,omitempty"`
	CloseErr bool  `json:"close_err,omitempty"` // Object.Close returns an error
	// Adv: number of schedulable "advance the fake clock by closeTimeout+1s" events. One is
	// offered as a choice whenever a load or an Object.Close is parked and no TryClose is
	// (a load / close that outlasts the cache's close deadline: real loads do I/O and need
	// not return promptly on cancellation).
	Adv int `json:"adv,omitempty"`
	// stress only
	Workers int   `json:"workers,omitempty"` // ops are dealt round-robin to this many free-running goroutines (0: one per op)
	Yields  []int `json:"yields,omitempty"`  // what a gate does in stress mode, consumed cyclically: 0 nothing, 1 Gosched, 2 Gosched x8, 3 sleep 5us
	Iters   int   `json:"iters,omitempty"`
}

var idNames = []string{"a", "b"}

func (o Op) id() string { return idNames[o.Id%len(idNames)] }
func (o Op) global() bool {
	return o.K == kGC || o.K == kClose || o.K == kForEach || o.K == kLen
}
func (o Op) remover() bool {
	switch o.K {
	case kRemove, kRmSame, kRmStale, kTryRm, kGC, kClose:
		return true
	}
	return false
}
func (o Op) touches(id string) bool { return o.global() || o.id() == id }
func (o Op) String() string {
	s := o.K
	if !o.global() {
		s += "(" + o.id() + ")"
	}
	if o.Cancel {
		s += "+cancel"
	}
	return s
}

// ---- harness: model of instances + LoadFunc + Object ---------------------------------------

type inst struct {
	no      int
	id      string
	origin  string // "load" | "add" | "dummy"
	obj     *object
	addT    int // origin add: logical time Add was called
	liveT   int // load end (value) / successful Add return; 0 = never live
	closes  int // Close() entries + TryClose verdicts "closed"
	closedT int // logical time the closing call returned; 0 = open
	closeOp int // op in whose goroutine it was closed (-1: prelude/epilogue/unknown)
	busyTry bool
	gaveUp  bool // a TryClose on it answered busy after a cache Close had begun
}

func (x *inst) name() string { return fmt.Sprintf("%s#%d", x.id, x.no) }

type object struct {
	h  *harness
	in *inst
}

var errLoad = errors.New("harness: load failed")
var errClose = errors.New("harness: close reported an error")

type harness struct {
	c     Case
	ctl   *sched.Ctl
	cache ocache.OCache

	mu             sync.Mutex
	phase          int // 0 prelude, 1 main, 2 epilogue
	insts          []*inst
	loadNo         int
	tryNo          int
	inflight       map[string]int
	viol           []string
	excluded       string // signature of a known finding excluded by construction (none at present)
	results        []string
	closeStartT    int // first cache Close op started
	closeDoneT     int // first cache Close op returned nil
	closeOps       int
	classes        map[string]bool
	loadsMain      int
	advDuringClose bool          // the clock was advanced past the close deadline while a cache Close was running
	rmTarget       map[int]*inst // RemoveSame ops: the instance passed
	handed         []handed      // instances handed to callers
}

// handed is one instance given to a caller by Get / Pick / ForEach.
type handed struct {
	op     int
	startT int
	x      *inst
	how    string
}

func newHarness(c Case, ctl *sched.Ctl) *harness {
	h := &harness{c: c, ctl: ctl, inflight: map[string]int{}, classes: map[string]bool{}, results: make([]string, len(c.Ops)), rmTarget: map[int]*inst{}}
	return h
}

func (h *harness) violation(f string, a ...any) {
	h.mu.Lock()
	defer h.mu.Unlock()
	h.violationLocked(f, a...)
}

func (h *harness) violationLocked(f string, a ...any) {
	if len(h.viol) < 8 {
		h.viol = append(h.viol, fmt.Sprintf(f, a...))
	}
}

func (h *harness) opKind(i int) string {
	if i < 0 || i >= len(h.c.Ops) {
		return ""
	}
	return h.c.Ops[i].K
}

func (h *harness) newInst(id, origin string) *inst {
	x := &inst{no: len(h.insts) + 1, id: id, origin: origin, closeOp: -1}
	x.obj = &object{h: h, in: x}
	h.insts = append(h.insts, x)
	return x
}

// becameLive: invariant "at most one live instance per id at any time".
func (h *harness) becameLiveLocked(x *inst, t int, how string) {
	x.liveT = t
	if x.closedT > 0 {
		// free-running mode only: the Add that inserted x was overtaken - x has been removed and
		// closed before its caller got to record the successful return; its interval is empty
		return
	}
	for _, y := range h.insts {
		if y != x && y.id == x.id && y.liveT > 0 && y.closedT == 0 {
			h.violationLocked("two live instances of id %s: %s became live (%s, t%d) while %s (live since t%d) is not closed", x.id, x.name(), how, t, y.name(), y.liveT)
		}
	}
}

func (h *harness) load(ctx context.Context, id string) (ocache.Object, error) {
	h.mu.Lock()
	outcome := ldValue
	if h.phase == 1 {
		if n := len(h.c.Loads); n > 0 {
			outcome = h.c.Loads[h.loadsMain%n]
		}
		h.loadsMain++
	}
	h.loadNo++
	no := h.loadNo
	h.mu.Unlock()
	t := h.ctl.Log("load-start", id, no, "")
	h.mu.Lock()
	// invariant: a new load for an id starts only after the previous instance's close returned
	for _, y := range h.insts {
		if y.id == id && y.liveT > 0 && y.closedT == 0 {
			h.violationLocked("load #%d of id %s started (t%d) while instance %s (live since t%d) is not closed", no, id, t, y.name(), y.liveT)
		}
	}
	h.inflight[id]++
	h.mu.Unlock()

	var released bool
	if outcome == ldCtxAware {
		released = h.ctl.Park(ctx, "load:"+id)
	} else {
		released = h.ctl.Park(nil, "load:"+id)
	}

	h.mu.Lock()
	defer h.mu.Unlock()
	h.inflight[id]--
	switch {
	case outcome == ldErr:
		h.ctl.Log("load-end", id, no, "error")
		return nil, errLoad
	case outcome == ldNil:
		h.ctl.Log("load-end", id, no, "nil")
		return nil, nil
	case (outcome == ldCtxAware && !released) || (outcome == ldCtxAtEnd && ctx.Err() != nil) || (outcome == ldCtxAware && ctx.Err() != nil):
		h.ctl.Log("load-end", id, no, "ctx-aborted")
		h.classes["load-ctx-aborted"] = true
		return nil, ctx.Err()
	}
	x := h.newInst(id, "load")
	t = h.ctl.Log("load-end", id, no, "value "+x.name())
	h.becameLiveLocked(x, t, "load end")
	return x.obj, nil
}

func (o *object) Close() error {
	h, x := o.h, o.in
	t := h.ctl.Log("close-start", x.name(), 0, "")
	h.mu.Lock()
	x.closes++
	if x.closes > 1 {
		h.violationLocked("instance %s closed twice: Close() called at t%d, it had already been closed/being closed %d time(s)", x.name(), t, x.closes-1)
	}
	if x.liveT == 0 && x.origin != "add" {
		h.violationLocked("Close() called on %s which never became live", x.name())
	}
	h.mu.Unlock()
	h.ctl.Park(nil, "close:"+x.name())
	op := h.ctl.CurOp()
	h.mu.Lock()
	x.closedT = h.ctl.Log("close-end", x.name(), 0, "")
	x.closeOp = op
	h.checkCloserLocked(x, op)
	h.mu.Unlock()
	if h.c.CloseErr {
		return errClose
	}
	return nil
}

func (o *object) TryClose(time.Duration) (bool, error) {
	h, x := o.h, o.in
	op := h.ctl.CurOp()
	h.mu.Lock()
	verdict := tryClosed
	if n := len(h.c.Try); n > 0 {
		verdict = h.c.Try[h.tryNo%n]
	}
	h.tryNo++
	x.busyTry = verdict == tryBusy
	h.mu.Unlock()
	h.ctl.Log("try-start", x.name(), verdict, "")
	h.ctl.Park(nil, "try:"+x.name())
	h.mu.Lock()
	defer h.mu.Unlock()
	x.busyTry = false
	if verdict == tryBusy {
		if h.closeStartT > 0 {
			x.gaveUp = true
		}
		h.ctl.Log("try-end", x.name(), verdict, "busy")
		return false, nil
	}
	x.closes++
	t := h.ctl.Log("try-end", x.name(), verdict, "closed")
	if x.closes > 1 {
		h.violationLocked("instance %s closed twice: TryClose reported closed at t%d, it had already been closed/being closed %d time(s)", x.name(), t, x.closes-1)
	}
	x.closedT = t
	x.closeOp = op
	h.checkCloserLocked(x, op)
	if verdict == tryClosedErr {
		return true, errClose
	}
	return true, nil
}

// conditional removal (documented contract of RemoveSame): it closes the given instance or nothing.
func (h *harness) checkCloserLocked(x *inst, op int) {
	k := h.opKind(op)
	if k != kRmSame && k != kRmStale {
		return
	}
	if want := h.rmTarget[op]; want != nil && want != x {
		h.violationLocked("RemoveSame(%s, %s) [op%d] closed a different instance %s", x.id, want.name(), op, x.name())
	}
}
