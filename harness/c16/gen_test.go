package c16

import (
	"os"
	"strconv"
	"testing"

	"pgregory.net/rapid"

	"verif/harness/internal/sched"
	"verif/harness/internal/vstat"
)

// ---- small-scope exhaustive enumeration ----------------------------------------------------

// one-id alphabet of the exhaustive part
var exAlphabet = []Op{
	{K: kGet}, {K: kGet, Cancel: true}, {K: kPick}, {K: kAdd}, {K: kRemove}, {K: kRemove, Cancel: true}, {K: kRmSame}, {K: kRmStale},
	{K: kTryRm}, {K: kDoLocked}, {K: kGC}, {K: kClose},
}

// two-id block: a and b cached, a global walker (gc/close) among operations on both ids
var exAlphabet2 = []Op{
	{K: kGet}, {K: kRemove}, {K: kTryRm}, {K: kGet, Id: 1}, {K: kRemove, Id: 1}, {K: kTryRm, Id: 1}, {K: kGC}, {K: kClose},
}

var (
	preNone   = []Op(nil)
	preLoaded = []Op{{K: kGet}, {K: kRemove}, {K: kGet}} // a cached, and an earlier instance of a already removed (stale)
	preTwo    = []Op{{K: kGet}, {K: kGet, Id: 1}}
)

const exCapPerBase = 6000

type base struct {
	pre []Op
	ops []Op
}

func hasKind(ops []Op, ks ...string) bool {
	for _, o := range ops {
		for _, k := range ks {
			if o.K == k {
				return true
			}
		}
	}
	return false
}

func hasCancel(ops []Op) bool {
	for _, o := range ops {
		if o.Cancel {
			return true
		}
	}
	return false
}

// seqs yields every sequence of length n over alpha.
func seqs(alpha []Op, n int, f func([]Op)) {
	cur := make([]Op, n)
	var rec func(int)
	rec = func(i int) {
		if i == n {
			f(append([]Op(nil), cur...))
			return
		}
		for _, o := range alpha {
			cur[i] = o
			rec(i + 1)
		}
	}
	rec(0)
}

// bases lists the (prelude, operations) pairs in size order.
func bases(maxOps int) (out []base) {
	for n := 1; n <= maxOps; n++ {
		for _, pre := range [][]Op{preNone, preLoaded} {
			seqs(exAlphabet, n, func(ops []Op) { out = append(out, base{pre, ops}) })
		}
		if n >= 2 {
			seqs(exAlphabet2, n, func(ops []Op) {
				hasB := false
				for _, o := range ops {
					if !o.global() && o.Id == 1 {
						hasB = true
					}
				}
				if hasB && hasKind(ops, kGC, kClose) {
					out = append(out, base{preTwo, ops})
				}
			})
		}
	}
	return out
}

// envs lists the environments (load outcome, try-close verdict) that can matter for ops.
func envs(ops []Op) (out [][3][]int) {
	loads := [][]int{{ldValue}}
	if hasKind(ops, kGet) {
		loads = append(loads, []int{ldErr}, []int{ldNil})
		if hasKind(ops, kClose) || hasCancel(ops) {
			loads = append(loads, []int{ldCtxAware}, []int{ldCtxAtEnd})
		}
	}
	tries := [][]int{{tryClosed}}
	if hasKind(ops, kTryRm, kGC) {
		tries = [][]int{{tryBusy}, {tryClosed}, {tryClosedErr}}
		nTry := 0
		for _, o := range ops {
			if o.K == kTryRm || o.K == kGC {
				nTry++
			}
		}
		if nTry >= 2 {
			tries = append(tries, []int{tryBusy, tryClosed}, []int{tryClosed, tryBusy})
		}
	}
	for _, l := range loads {
		for _, t := range tries {
			out = append(out, [3][]int{l, t, {0}})
			// a load that ignores cancellation and outlasts the cache's close deadline
			if hasKind(ops, kClose) && hasKind(ops, kGet) && (l[0] == ldValue || l[0] == ldErr) {
				out = append(out, [3][]int{l, t, {1}})
			}
		}
	}
	return out
}

func shardOf() (int, int) {
	sh, _ := strconv.Atoi(os.Getenv("VERIF_SHARD"))
	n, _ := strconv.Atoi(os.Getenv("VERIF_SHARDS"))
	if n <= 0 {
		n, sh = 1, 0
	}
	return sh, n
}

// enumerate: for every base case and environment, every order in which the gates can be
// passed (DFS over schedule prefixes, each schedule replayed from scratch).
func enumerate(yield func(Case) bool) {
	sh, n := shardOf()
	maxOps := vstat.Pick(3, 4)
	if v, _ := strconv.Atoi(os.Getenv("VERIF_C16_MAXOPS")); v > 0 {
		maxOps = v
	}
	idx := 0
	for _, b := range bases(maxOps) {
		for _, e := range envs(b.ops) {
			idx++
			if idx%n != sh {
				continue
			}
			stop := false
			_, complete := sched.Explore(func(prefix []int) ([]int, []int, bool) {
				c := Case{Pre: b.pre, Age: true, Ops: b.ops, Sched: append([]int{}, prefix...), Loads: e[0], Try: e[1], Adv: e[2][0]}
				lastTrace = nil
				if !yield(c) {
					stop = true
					return nil, nil, false
				}
				w := make([]int, len(lastTrace))
				ch := make([]int, len(lastTrace))
				for i, s := range lastTrace {
					w[i], ch[i] = s.Width, s.Chosen
				}
				return w, ch, true
			}, exCapPerBase)
			if stop {
				return
			}
			vstat.Count("exhaustive_bases", 1)
			if !complete {
				vstat.Count("exhaustive_bases_capped_at_"+strconv.Itoa(exCapPerBase), 1)
			}
		}
	}
}

// ---- random generation -----------------------------------------------------------------------

var genKinds = []string{kGet, kGet, kGet, kPick, kAdd, kRemove, kRemove, kRmSame, kRmStale, kTryRm, kTryRm, kGC, kGC, kClose, kDoLocked, kForEach, kLen}

var genPreludes = [][]Op{
	nil,
	{{K: kGet}},
	{{K: kAdd}},
	preLoaded,
	preTwo,
	{{K: kGet}, {K: kGet, Id: 1}, {K: kRemove, Id: 1}, {K: kAdd, Id: 1}},
}

func genOp(rt *rapid.T, twoIds bool) Op {
	o := Op{K: rapid.SampledFrom(genKinds).Draw(rt, "kind")}
	if twoIds && !o.global() {
		o.Id = rapid.IntRange(0, 1).Draw(rt, "id")
	}
	switch o.K {
	case kGet, kPick, kRemove, kRmSame:
		o.Cancel = rapid.IntRange(0, 3).Draw(rt, "cancel") == 0
	}
	return o
}

func genCase(rt *rapid.T) Case {
	var c Case
	c.Pre = rapid.SampledFrom(genPreludes).Draw(rt, "prelude")
	c.Age = rapid.IntRange(0, 3).Draw(rt, "age") != 0
	twoIds := rapid.IntRange(0, 2).Draw(rt, "twoIds") == 0
	n := rapid.IntRange(4, vstat.Pick(7, 9)).Draw(rt, "nOps")
	for i := 0; i < n; i++ {
		c.Ops = append(c.Ops, genOp(rt, twoIds))
	}
	c.Sched = rapid.SliceOfN(rapid.IntRange(0, 7), 0, 48).Draw(rt, "sched")
	c.Loads = rapid.SliceOfN(rapid.SampledFrom([]int{ldValue, ldValue, ldValue, ldErr, ldNil, ldCtxAware, ldCtxAtEnd}), 1, 4).Draw(rt, "loads")
	c.Try = rapid.SliceOfN(rapid.IntRange(0, 2), 1, 3).Draw(rt, "try")
	c.CloseErr = rapid.IntRange(0, 4).Draw(rt, "closeErr") == 0
	c.Adv = rapid.SampledFrom([]int{0, 0, 1, 2}).Draw(rt, "adv")
	return c
}

// ---- tests --------------------------------------------------------------------------------------

func TestExhaustive(t *testing.T) {
	outerT = t
	vstat.Enumerate(t, prop, enumerate, run)
}

func TestRandom(t *testing.T) {
	outerT = t
	vstat.Check(t, prop, genCase, run)
}

func TestReplay(t *testing.T) {
	t.Run("TestExhaustive", func(t *testing.T) { outerT = t; vstat.Replay(t, prop, "TestExhaustive", run) })
	t.Run("TestRandom", func(t *testing.T) { outerT = t; vstat.Replay(t, prop, "TestRandom", run) })
	t.Run("TestStress", func(t *testing.T) { outerT = t; vstat.Replay(t, prop, "TestStress", runStress) })
}

// ---- regressions: minimal cases of defects this check found (fixed in /repo) -------------------

// Close returned, then Add(a): Add used to ignore `closed`, the added instance was never closed.
func TestRegAddAfterClose(t *testing.T) {
	outerT = t
	vstat.One(t, prop, Case{Ops: []Op{{K: kClose}, {K: kAdd}}}, run)
}

// Add racing Close: Close parked in the Close() of a, Add(b) arrives.
func TestRegAddDuringClose(t *testing.T) {
	outerT = t
	vstat.One(t, prop, Case{Pre: []Op{{K: kGet}}, Ops: []Op{{K: kClose}, {K: kAdd, Id: 1}}}, run)
}

// Get(a) parked in its load, TryRemove(a) started: TryRemove used to dereference the nil value.
func TestRegTryRemoveWhileLoading(t *testing.T) {
	outerT = t
	vstat.One(t, prop, Case{Ops: []Op{{K: kGet}, {K: kTryRm}}}, run)
}

// a cached; TryRemove(a) whose TryClose reports (true, err); Get(a) started meanwhile used to
// block for ever on the entry left in state closing.
func TestRegTryRemoveCloseError(t *testing.T) {
	outerT = t
	vstat.One(t, prop, Case{Pre: []Op{{K: kGet}}, Ops: []Op{{K: kTryRm}, {K: kGet}}, Try: []int{tryClosedErr}}, run)
}

// Cache Close while a load that ignores cancellation is in flight and outlasts the close
// deadline: once the load has finished its instance must still be closed.
func TestRegLoadOutlastsCloseDeadline(t *testing.T) {
	outerT = t
	// start get, start close, advance, open load
	vstat.One(t, prop, Case{Ops: []Op{{K: kGet}, {K: kClose}}, Sched: []int{0, 0, 1, 0}, Adv: 1}, run)
}

// GO-7332 shape (the repo's own regression, here as a schedule): busy TryRemove reverts the
// entry while two removers are parked on it.
func TestRegBusyRevertTwoRemovers(t *testing.T) {
	outerT = t
	vstat.One(t, prop, Case{Pre: []Op{{K: kAdd}}, Ops: []Op{{K: kTryRm}, {K: kRemove}, {K: kRemove}}, Try: []int{tryBusy}}, run)
}
