package c16

import (
	"context"
	"encoding/json"
	"fmt"
	"os"
	"path/filepath"
	"runtime"
	"strings"
	"sync"
	"sync/atomic"
	"testing"
	"time"

	"pgregory.net/rapid"

	"verif/harness/internal/sched"
	"verif/harness/internal/vstat"
)

// Stress part: the same operations, LoadFunc, Objects and history invariants, but no
// bubble and no controller: real goroutines race freely (gates only yield / sleep a few
// microseconds), many iterations per case, meant to run under -race. It samples the
// interleavings inside the cache's own critical sections that no gate can reach.

const stressWatchdog = 15 * time.Second // > ocache's real 10 s close deadline

func stressOnce(c Case) (out vstat.Outcome, err error) {
	ctl := sched.New(len(c.Ops))
	ctl.FreeRun = true
	var yc atomic.Int64
	ctl.Yield = func(string) {
		n := len(c.Yields)
		if n == 0 {
			runtime.Gosched()
			return
		}
		switch c.Yields[int(yc.Add(1))%n] {
		case 1:
			runtime.Gosched()
		case 2:
			for k := 0; k < 8; k++ {
				runtime.Gosched()
			}
		case 3:
			time.Sleep(5 * time.Microsecond)
		}
	}
	h := newHarness(c, ctl)
	h.cache = newCache(h, time.Nanosecond) // every entry is GC-eligible at once, as in the repo's own fuzzy test
	root, cancelRoot := context.WithCancel(context.Background())
	defer cancelRoot()
	for _, op := range c.Pre {
		switch op.K {
		case kGet, kAdd, kRemove:
			h.exec(-1, op, root, 0)
		}
	}
	h.mu.Lock()
	h.phase = 1
	h.mu.Unlock()

	w := c.Workers
	if w <= 0 || w > len(c.Ops) {
		w = len(c.Ops)
	}
	var wg sync.WaitGroup
	begin := make(chan struct{})
	for k := 0; k < w; k++ {
		wg.Add(1)
		go func(k int) {
			defer wg.Done()
			<-begin
			for i := k; i < len(c.Ops); i += w {
				op := c.Ops[i]
				ctx := root
				var cancel context.CancelFunc
				if op.Cancel {
					ctx, cancel = context.WithCancel(root)
					if i%2 == 0 {
						go func() { runtime.Gosched(); cancel() }()
					} else {
						cancel()
					}
				}
				ctl.Do(i, func() { h.exec(i, op, ctx, ctl.Ops()[i].StartT) })
				if cancel != nil {
					cancel()
				}
			}
		}(k)
	}
	done := make(chan struct{})
	go func() { wg.Wait(); close(done) }()
	close(begin)
	select {
	case <-done:
	case <-time.After(stressWatchdog):
		for _, i := range ctl.Unfinished() {
			h.violation("op%d %s is still blocked after %s of real time (no gate parks in stress mode)", i, c.Ops[i], stressWatchdog)
		}
		if len(ctl.Unfinished()) == 0 {
			h.violation("workers did not finish within %s", stressWatchdog)
		}
	}
	for i, st := range ctl.Ops() {
		if st.Panic != nil {
			h.violation("op%d %s panicked: %v\n%s", i, c.Ops[i], st.Panic, trimStack(st.PanicStk))
		}
	}
	h.mu.Lock()
	h.phase = 2
	bad := len(h.viol) > 0
	closedByCase := h.closeDoneT > 0
	h.mu.Unlock()
	if !bad {
		if !closedByCase {
			ec := make(chan struct{})
			go func() {
				defer close(ec)
				defer func() {
					if r := recover(); r != nil {
						h.violation("epilogue cache Close panicked: %v", r)
					}
				}()
				h.exec(-1, Op{K: kClose}, root, 0)
			}()
			select {
			case <-ec:
			case <-time.After(stressWatchdog):
				h.violation("epilogue cache Close did not return within %s", stressWatchdog)
			}
		}
		h.mu.Lock()
		if h.closeDoneT > 0 {
			for _, x := range h.insts {
				if x.liveT > 0 && x.closedT == 0 {
					h.violationLocked("instance %s (live since t%d) is left open although the cache has shut down (Close returned at t%d)", x.name(), x.liveT, h.closeDoneT)
				}
			}
		}
		h.mu.Unlock()
	}
	out = h.outcome(nil, len(c.Ops) >= 2)
	out.Classes = append(out.Classes, "stress")
	h.mu.Lock()
	defer h.mu.Unlock()
	if len(h.viol) > 0 {
		err = fmt.Errorf("%s\n%s", strings.Join(h.viol, "\n"), h.reportLocked(nil))
	}
	return out, err
}

func runStress(c Case) (vstat.Outcome, error) {
	if len(c.Ops) == 0 {
		return vstat.Outcome{}, nil
	}
	iters := c.Iters
	if iters <= 0 {
		iters = 10
	}
	var first vstat.Outcome
	for it := 0; it < iters; it++ {
		out, err := stressOnce(c)
		if it == 0 {
			first = out
		}
		if out.Excluded != "" {
			first.Excluded = out.Excluded
		}
		if err != nil {
			return first, fmt.Errorf("stress iteration %d/%d: %w", it+1, iters, err)
		}
		vstat.Count("stress_iterations", 1)
	}
	return first, nil
}

func genStress(rt *rapid.T) Case {
	var c Case
	c.Pre = rapid.SampledFrom(genPreludes).Draw(rt, "prelude")
	twoIds := rapid.IntRange(0, 2).Draw(rt, "twoIds") == 0
	n := rapid.IntRange(3, 12).Draw(rt, "nOps")
	// a third of the cases are lookup-heavy: several Gets racing through a miss while
	// removers empty the slot again (the single-flight placeholder is the mechanism at stake)
	getHeavy := rapid.IntRange(0, 2).Draw(rt, "getHeavy") == 0
	for i := 0; i < n; i++ {
		o := genOp(rt, twoIds)
		if getHeavy && i%2 == 0 {
			o = Op{K: kGet, Id: o.Id}
		}
		c.Ops = append(c.Ops, o)
	}
	c.Workers = rapid.IntRange(0, 4).Draw(rt, "workers")
	c.Loads = rapid.SliceOfN(rapid.SampledFrom([]int{ldValue, ldValue, ldValue, ldErr, ldNil, ldCtxAware, ldCtxAtEnd}), 1, 4).Draw(rt, "loads")
	c.Try = rapid.SliceOfN(rapid.IntRange(0, 2), 1, 3).Draw(rt, "try")
	c.Yields = rapid.SliceOfN(rapid.SampledFrom([]int{0, 1, 1, 2, 2, 3}), 1, 6).Draw(rt, "yields")
	c.CloseErr = rapid.IntRange(0, 4).Draw(rt, "closeErr") == 0
	c.Iters = vstat.Pick(8, 25)
	return c
}

// TestStress: free-running goroutines; the driver builds it with -race in the thorough tier
// (GORACE=halt_on_error=1 so that a data race leaves current-case.json behind as the replay).
func TestStress(t *testing.T) {
	outerT = t
	cur := ""
	if d := os.Getenv("VERIF_REPLAY_OUT"); d != "" {
		os.MkdirAll(d, 0o755)
		cur = filepath.Join(d, "current-case.json")
	}
	vstat.Check(t, prop, genStress, func(c Case) (vstat.Outcome, error) {
		if cur != "" {
			b, _ := json.Marshal(map[string]any{"property": prop, "test": "TestStress", "error": "process died / data race while this case was running", "case": c})
			os.WriteFile(cur, b, 0o644)
		}
		out, err := runStress(c)
		if cur != "" {
			os.Remove(cur)
		}
		return out, err
	})
}
