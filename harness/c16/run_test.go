package c16

import (
	"context"
	"fmt"
	"runtime"
	"sort"
	"strings"
	"testing"
	"testing/synctest"
	"time"

	"github.com/anyproto/any-sync/app/ocache"
	"go.uber.org/zap"

	"verif/harness/internal/sched"
	"verif/harness/internal/vstat"
)

const (
	cacheTTL     = time.Minute
	closeTimeout = 10 * time.Second // ocache's bound on Close waiting for another closer
	maxSteps     = 400
)

// outerT is the *testing.T of the running test function; synctest.Test needs one and run()
// must stay rapid-free.
var outerT *testing.T

// lastTrace is the trace of the most recent deterministic run (read by the DFS enumeration).
var lastTrace []sched.Step

// ---- executing one operation ----------------------------------------------------------------

// exec runs operation i (index into c.Ops, or -1 for prelude/epilogue ops) in the calling goroutine.
func (h *harness) exec(i int, op Op, ctx context.Context, startT int) {
	id := op.id()
	res := ""
	switch op.K {
	case kGet:
		v, err := h.cache.Get(ctx, id)
		res = h.handedTo(i, startT, id, "Get", v, err)
	case kPick:
		v, err := h.cache.Pick(ctx, id)
		res = h.handedTo(i, startT, id, "Pick", v, err)
	case kAdd:
		h.mu.Lock()
		x := h.newInst(id, "add")
		x.addT = h.ctl.Log("add-call", x.name(), 0, "")
		h.mu.Unlock()
		err := h.cache.Add(id, x.obj)
		h.mu.Lock()
		if err == nil {
			t := h.ctl.Log("add-ok", x.name(), 0, "")
			h.becameLiveLocked(x, t, "Add returned nil")
		}
		h.mu.Unlock()
		res = fmt.Sprintf("%s err=%v", x.name(), err)
	case kRemove:
		ok, err := h.cache.Remove(ctx, id)
		res = fmt.Sprintf("ok=%v err=%v", ok, err)
	case kRmSame, kRmStale:
		h.mu.Lock()
		var x *inst
		for _, y := range h.insts {
			if y.id != id || y.liveT == 0 {
				continue
			}
			if op.K == kRmSame && y.closedT == 0 && y.closes == 0 {
				x = y
			}
			if op.K == kRmStale && y.closedT > 0 {
				x = y
			}
		}
		if x == nil {
			x = h.newInst(id, "dummy") // never cached
		}
		if i >= 0 {
			h.rmTarget[i] = x
		}
		h.mu.Unlock()
		ok, err := h.cache.RemoveSame(ctx, id, x.obj)
		res = fmt.Sprintf("%s ok=%v err=%v", x.name(), ok, err)
	case kTryRm:
		ok, err := h.cache.TryRemove(id)
		res = fmt.Sprintf("ok=%v err=%v", ok, err)
	case kGC:
		h.cache.GC()
	case kClose:
		h.mu.Lock()
		if h.closeStartT == 0 {
			h.closeStartT = h.ctl.Now()
		}
		h.mu.Unlock()
		err := h.cache.Close()
		h.mu.Lock()
		if err == nil && h.closeDoneT == 0 {
			h.closeDoneT = h.ctl.Log("cache-closed", "", 0, "")
		}
		h.mu.Unlock()
		res = fmt.Sprintf("err=%v", err)
	case kDoLocked:
		ran := false
		err := h.cache.DoLockedIfNotExists(id, func() error {
			ran = true
			h.ctl.Log("locked-action", id, 0, "")
			return nil
		})
		res = fmt.Sprintf("ran=%v err=%v", ran, err)
	case kForEach:
		var seen []string
		h.cache.ForEach(func(v ocache.Object) bool {
			seen = append(seen, h.handedTo(i, startT, "", "ForEach", v, nil))
			return true
		})
		sort.Strings(seen)
		res = strings.Join(seen, ",")
	case kLen:
		res = fmt.Sprint(h.cache.Len())
	default:
		panic("harness: unknown op kind " + op.K)
	}
	if i >= 0 {
		h.mu.Lock()
		h.results[i] = res
		h.mu.Unlock()
	}
}

// handedTo checks the clauses about instances handed to callers:
// "every instance handed to a caller had finished loading" and "a lookup that starts after a
// removal completed never returns the removed instance".
func (h *harness) handedTo(op, startT int, id, how string, v ocache.Object, err error) string {
	if err != nil {
		return fmt.Sprintf("err=%v", err)
	}
	o, _ := v.(*object)
	if v == nil || o == nil {
		h.violation("%s(%s) [op%d] returned a nil value without an error (the instance had not finished loading)", how, id, op)
		return "nil,nil"
	}
	x := o.in
	ops := h.ctl.Ops()
	h.mu.Lock()
	defer h.mu.Unlock()
	if id != "" && x.id != id {
		h.violationLocked("%s(%s) [op%d] returned %s, an instance of another id", how, id, op, x.name())
	}
	if x.liveT == 0 && !(x.origin == "add" && x.addT > 0) {
		h.violationLocked("%s(%s) [op%d] returned %s which has not finished loading", how, id, op, x.name())
	}
	if x.closedT > 0 && startT > 0 {
		removedBy := ""
		switch {
		case x.closeOp < 0 && x.closedT < startT:
			removedBy = "a removal that completed before the concurrent phase"
		case x.closeOp >= 0 && x.closeOp < len(ops) && ops[x.closeOp].Done && ops[x.closeOp].DoneT < startT:
			removedBy = fmt.Sprintf("op%d %s which returned at t%d", x.closeOp, h.c.Ops[x.closeOp], ops[x.closeOp].DoneT)
		}
		if removedBy != "" {
			h.violationLocked("%s(%s) [op%d, started t%d] returned %s, removed (closed t%d) by %s", how, id, op, startT, x.name(), x.closedT, removedBy)
		}
	}
	return x.name()
}

// ---- one deterministic run inside a bubble -----------------------------------------------------

type result struct {
	out            vstat.Outcome
	err            error
	trace          []sched.Step
	orderSensitive bool
}

func newCache(h *harness, ttl time.Duration) ocache.OCache {
	return ocache.New(h.load, ocache.WithTTL(ttl), ocache.WithGCPeriod(0), ocache.WithLogger(zap.NewNop().Sugar()))
}

// runOnce executes the case once. A bubble that cannot wind down (goroutines blocked for
// ever even after every context was cancelled and the clock advanced) makes synctest.Test
// panic with a deadlock report; that is turned into a violation.
func runOnce(c Case) (res result) {
	if outerT == nil {
		panic("harness: outerT not set")
	}
	defer runtime.GOMAXPROCS(runtime.GOMAXPROCS(1)) // one P: goroutines woken in the same step run in a reproducible order
	var h *harness
	func() {
		defer func() {
			if r := recover(); r != nil {
				msg := fmt.Sprint(r)
				if strings.Contains(msg, "deadlock") && h != nil {
					if res.err != nil {
						return
					}
					res.err = fmt.Errorf("operations blocked for ever (bubble cannot wind down: %s)\n%s", msg, h.report(res.trace))
					return
				}
				panic(r)
			}
		}()
		synctest.Test(outerT, func(t *testing.T) {
			ctl := sched.New(len(c.Ops))
			h = newHarness(c, ctl)
			res = h.bubble()
		})
	}()
	return res
}

func (h *harness) bubble() (res result) {
	c, ctl := h.c, h.ctl
	h.cache = newCache(h, cacheTTL)
	root, cancelRoot := context.WithCancel(context.Background())
	defer cancelRoot()

	// prelude: gates do not park
	ctl.FreeRun = true
	for _, op := range c.Pre {
		switch op.K {
		case kGet, kAdd, kRemove:
			h.exec(-1, op, root, 0)
		}
	}
	ctl.FreeRun = false
	if c.Age {
		time.Sleep(cacheTTL + time.Second)
	}
	h.mu.Lock()
	h.phase = 1
	h.mu.Unlock()

	// concurrent phase
	nonTrivial := false
	start := func(i int) {
		op := c.Ops[i]
		ctx := context.WithValue(root, opKey{}, i)
		var cancel context.CancelFunc
		var withdraw func()
		if op.Cancel {
			ctx, cancel = context.WithCancel(ctx)
			withdraw = ctl.Event(fmt.Sprintf("cancel:op%d", i), i, func() {
				h.mu.Lock()
				h.classes["ctx-cancelled"] = true
				h.mu.Unlock()
				cancel()
			})
		}
		ctl.Go(i, func() {
			if withdraw != nil {
				defer withdraw()
				defer cancel()
			}
			h.exec(i, op, ctx, ctl.Ops()[i].StartT)
		})
	}
	observe := func(v sched.View) {
		// busy try-close parked with two other removers of that id under way
		for _, p := range v.Parked {
			if p.Event || !strings.HasPrefix(p.Key, "try:") {
				continue
			}
			x := h.instByName(p.Key[4:])
			if x == nil || !x.busyTry {
				continue
			}
			n := 0
			for j, st := range v.Ops {
				if j != p.Op && st.Started && !st.Done && c.Ops[j].remover() && c.Ops[j].touches(x.id) {
					n++
				}
			}
			if n >= 2 {
				h.classes["two-removers-around-busy-tryclose"] = true
			}
		}
		if v.ChosenKey != "start" || v.NextStart < 0 {
			return
		}
		j := v.NextStart
		oj := c.Ops[j]
		closing := false
		for k, st := range v.Ops {
			if st.Started && !st.Done && c.Ops[k].K == kClose {
				closing = true
			}
		}
		if closing && len(v.Parked) > 0 {
			h.classes["close-vs-concurrent-op"] = true
		}
		for _, p := range v.Parked {
			if p.Event || p.Op == j {
				continue
			}
			gid := gateId(p.Key)
			if !oj.touches(gid) {
				continue
			}
			nonTrivial = true
			isLoad := strings.HasPrefix(p.Key, "load:")
			switch {
			case isLoad && (oj.K == kRmSame || oj.K == kRmStale || oj.K == kTryRm):
				h.classes["conditional-removal-vs-inflight-load"] = true
			case isLoad && oj.K == kGC:
				h.classes["gc-vs-inflight-load"] = true
			case oj.K == kClose:
				h.classes["close-vs-concurrent-op"] = true
			}
			if isLoad && oj.K == kRemove {
				h.classes["removal-vs-inflight-load"] = true
			}
		}
	}
	// schedulable clock advances (see Case.Adv)
	for k := 1; k <= c.Adv && k <= 2; k++ {
		ctl.Event(fmt.Sprintf("advance:%d", k), -1, func() {
			h.mu.Lock()
			if h.closeStartT > 0 && h.closeDoneT == 0 {
				h.advDuringClose = true
			}
			h.mu.Unlock()
			ctl.Log("clock-advance", "", 0, (closeTimeout + time.Second).String())
			time.Sleep(closeTimeout + time.Second)
		})
	}
	pendingAdv := 1
	ctl.Offer = func(ev sched.Parked, gates []sched.Parked) bool {
		if !strings.HasPrefix(ev.Key, "advance:") {
			return true
		}
		if ev.Key != fmt.Sprintf("advance:%d", pendingAdv) {
			return false // one at a time, in order
		}
		slow := false
		for _, g := range gates {
			if strings.HasPrefix(g.Key, "try:") {
				return false
			}
			if strings.HasPrefix(g.Key, "load:") || strings.HasPrefix(g.Key, "close:") {
				slow = true
			}
		}
		return slow
	}
	observeAll := func(v sched.View) {
		if strings.HasPrefix(v.ChosenKey, "advance:") {
			pendingAdv++
			closing := false
			for k, st := range v.Ops {
				if st.Started && !st.Done && c.Ops[k].K == kClose {
					closing = true
				}
			}
			for _, p := range v.Parked {
				if closing && strings.HasPrefix(p.Key, "load:") {
					h.classes["load-outlasts-close-deadline"] = true
				}
				if closing && strings.HasPrefix(p.Key, "close:") {
					h.classes["object-close-outlasts-close-deadline"] = true
				}
			}
		}
		observe(v)
	}
	res.trace = ctl.Run(start, c.Sched, observeAll, maxSteps)
	ctl.ReleaseAll(100)

	// "no operation blocks for ever": every gate has been opened; whatever is still running
	// may only be waiting for one of the cache's own fake-clock deadlines
	var blocked []int
	if len(ctl.Unfinished()) > 0 {
		ctl.Advance(closeTimeout + time.Second)
		ctl.ReleaseAll(100)
		ctl.Advance(closeTimeout + time.Second)
		ctl.ReleaseAll(100)
		blocked = ctl.Unfinished()
	}
	ops := ctl.Ops()
	for i, st := range ops {
		if st.Panic != nil {
			h.violation("op%d %s panicked: %v\n%s", i, c.Ops[i], st.Panic, trimStack(st.PanicStk))
		}
	}
	for _, i := range blocked {
		h.violation("op%d %s is still blocked although every gate was released and the fake clock advanced past the cache's close deadline twice", i, c.Ops[i])
	}

	// epilogue: shut the cache down (if the case did not) and require every instance that was
	// ever live to be closed
	h.mu.Lock()
	h.phase = 2
	bad := len(h.viol) > 0
	closedByCase := h.closeDoneT > 0
	h.mu.Unlock()
	if !bad {
		if !closedByCase {
			done := make(chan struct{})
			ctl.FreeRun = true
			go func() {
				defer close(done)
				defer func() {
					if r := recover(); r != nil {
						h.violation("epilogue cache Close panicked: %v", r)
					}
				}()
				h.exec(-1, Op{K: kClose}, root, 0)
			}()
			synctest.Wait()
			select {
			case <-done:
			default:
				time.Sleep(closeTimeout + time.Second)
				synctest.Wait()
				select {
				case <-done:
				default:
					h.violation("epilogue cache Close blocks for ever")
				}
			}
		}
		h.mu.Lock()
		if h.closeDoneT > 0 {
			for _, x := range h.insts {
				if x.liveT > 0 && x.closedT == 0 {
					if h.advDuringClose && x.gaveUp {
						// documented give-up path (closeTimeout): the deadline elapsed while Close was
						// running and this instance's TryClose, in flight under another closer, said busy
						h.classes["close-gave-up-on-busy-tryclose(excused)"] = true
						continue
					}
					h.violationLocked("instance %s (live since t%d) is left open although the cache has shut down (Close returned at t%d)", x.name(), x.liveT, h.closeDoneT)
				}
			}
		}
		h.mu.Unlock()
	}

	// classification
	res.out = h.outcome(res.trace, nonTrivial)
	h.mu.Lock()
	if len(h.viol) > 0 {
		res.err = fmt.Errorf("%s\n%s", strings.Join(h.viol, "\n"), h.reportLocked(res.trace))
	}
	// map iteration order inside the cache is the one thing neither the schedule nor a single
	// P controls: GC / Close walking two entries
	ids := map[string]bool{}
	for _, x := range h.insts {
		if x.liveT > 0 {
			ids[x.id] = true
		}
	}
	if len(ids) > 1 {
		for _, op := range c.Ops {
			if op.K == kGC || op.K == kClose {
				res.orderSensitive = true
			}
		}
	}
	h.mu.Unlock()
	// let everything that is still blocked go (contexts), the bubble must wind down
	cancelRoot()
	synctest.Wait()
	return res
}

type opKey struct{}

func trimStack(s string) string {
	var keep []string
	for _, l := range strings.Split(s, "\n") {
		if strings.Contains(l, "ocache") || strings.Contains(l, "c16") {
			keep = append(keep, strings.TrimSpace(l))
		}
		if len(keep) >= 10 {
			break
		}
	}
	return strings.Join(keep, "\n")
}

func gateId(key string) string {
	// load:a | close:a#3 | try:a#3
	i := strings.IndexByte(key, ':')
	s := key[i+1:]
	if j := strings.IndexByte(s, '#'); j >= 0 {
		s = s[:j]
	}
	return s
}

func (h *harness) instByName(n string) *inst {
	h.mu.Lock()
	defer h.mu.Unlock()
	for _, x := range h.insts {
		if x.name() == n {
			return x
		}
	}
	return nil
}

func (h *harness) outcome(trace []sched.Step, nonTrivial bool) vstat.Outcome {
	h.mu.Lock()
	defer h.mu.Unlock()
	var out vstat.Outcome
	keys := make([]string, 0, len(trace))
	for _, s := range trace {
		keys = append(keys, s.Key)
	}
	out.Sig = vstat.HashJSON([]any{h.c.Pre, h.c.Age, h.c.Ops, h.c.Loads, h.c.Try, h.c.CloseErr, h.c.Adv, keys})
	out.NonTrivial = nonTrivial
	for k := range h.classes {
		out.Classes = append(out.Classes, k)
	}
	ids := map[int]bool{}
	for _, op := range h.c.Ops {
		if !op.global() {
			ids[op.Id%len(idNames)] = true
		}
	}
	if len(ids) > 1 {
		out.Classes = append(out.Classes, "two-ids")
	}
	out.Classes = append(out.Classes, fmt.Sprintf("ops-%d", len(h.c.Ops)))
	sort.Strings(out.Classes)
	out.Excluded = h.excluded
	return out
}

func (h *harness) report(trace []sched.Step) string {
	h.mu.Lock()
	defer h.mu.Unlock()
	return h.reportLocked(trace)
}

func (h *harness) reportLocked(trace []sched.Step) string {
	var b strings.Builder
	fmt.Fprintf(&b, "prelude=%v age=%v loads=%v try=%v adv=%d\n", h.c.Pre, h.c.Age, h.c.Loads, h.c.Try, h.c.Adv)
	ops := h.ctl.Ops()
	for i, op := range h.c.Ops {
		st := "not started"
		if ops[i].Started {
			st = fmt.Sprintf("started t%d, running", ops[i].StartT)
			if ops[i].Done {
				st = fmt.Sprintf("t%d..t%d -> %s", ops[i].StartT, ops[i].DoneT, h.results[i])
			}
		}
		fmt.Fprintf(&b, "  op%d %-16s %s\n", i, op.String(), st)
	}
	b.WriteString("schedule (choices taken): ")
	for _, s := range trace {
		fmt.Fprintf(&b, "%s ", s.Key)
	}
	b.WriteString("\nhistory:\n")
	for _, e := range h.ctl.History() {
		if e.Kind == "release" {
			continue
		}
		fmt.Fprintf(&b, "  %s\n", e)
	}
	s := b.String()
	if len(s) > 3200 {
		s = s[:3200] + "…"
	}
	return s
}

// run is the property: rapid-free, a function of the case (up to the cache's map iteration
// order, which is enumerated by repetition, and interleavings inside its critical sections).
func run(c Case) (vstat.Outcome, error) {
	if len(c.Ops) == 0 {
		return vstat.Outcome{}, nil
	}
	reps := 1
	var first result
	for r := 0; r < reps; r++ {
		res := runOnce(c)
		if r == 0 {
			first = res
			lastTrace = res.trace
			if res.orderSensitive {
				reps = 6
				first.out.Classes = append(first.out.Classes, "map-order-sensitive(x6)")
			}
		}
		if res.err != nil {
			return first.out, res.err
		}
	}
	return first.out, nil
}
