// Package c07 decides property C07: a range-hash diff run by one head index against
// another — in process or through the request/response wire encoding — terminates and
// reports exactly the ids present only remotely (new), exactly the common ids with
// different heads (changed; split by the greater head in the comparing variant) and
// exactly the ids present only locally (removed), each once, nothing else.
//
// Oracle: internal/setmodel (plain maps and set comprehensions). The implementation is
// never compared with itself.
package c07

import (
	"bytes"
	"context"
	"errors"
	"fmt"
	"os"
	"sort"
	"strconv"
	"testing"

	"github.com/anyproto/any-sync/app/ldiff"
	"pgregory.net/rapid"

	"verif/harness/internal/setmodel"
	"verif/harness/internal/vstat"
)

const prop = "C07"

func TestMain(m *testing.M) { vstat.Main(m, prop) }

// ---- case (plain data) ---------------------------------------------------------------

type Case struct {
	DF  int               `json:"df"`
	TH  int               `json:"th"`
	Ids []setmodel.IDSpec `json:"ids"` // the id universe of the case
	A   []int             `json:"a"`   // local index:  per universe id 0 = absent, k>0 = head number k
	B   []int             `json:"b"`   // remote index: same
	// how both indexes are built: 0 one Set(all...) call; 1 one Set per element;
	// 2 through a history: every universe id is first inserted with another head, then the
	// final heads are set in one call, then the ids that must be absent are removed.
	// 3 "fold": the LOCAL index is first filled (one Set call) with its own content plus every
	// other universe id - the ids the remote holds with the remote's heads, the rest with head
	// 1 - and then the ids it must not hold are removed one by one, nothing is inserted
	// afterwards; the REMOTE index is fresh (one Set call). So the local index has been
	// subdivided around ids it no longer holds, removals fold those subdivisions back, and the
	// peer still holds (part of) the pre-removal content with identical hashes.
	Build int `json:"build"`
	// E > 0: head number E stands for the EMPTY head "" (on whichever side uses it).
	E int `json:"e,omitempty"`
	// Rep > 0: every "one Set call" fill (build mode 0, the fresh side and the initial fill
	// of mode 3) passes a list in which every Rep-th element (id order) occurs twice, first
	// with a stale head; the last occurrence is the one that counts.
	Rep int `json:"rep,omitempty"`
}

var headTab = []string{"a", "b", "ab", "ba", "b0", "a~"}

func head(k int) string { return headTab[(k-1)%len(headTab)] }

func (c Case) head(k int) string {
	if k == c.E {
		return ""
	}
	return head(k)
}

// fill is the "one Set call" build: setmodel.Fresh, or with c.Rep > 0 the same call with
// repeated ids in the list.
func fill(c Case, s setmodel.Set) ldiff.Diff {
	if c.Rep <= 0 || len(s) == 0 {
		return setmodel.Fresh(c.DF, c.TH, s)
	}
	final := s.ElementsByID()
	var list []ldiff.Element
	for i := 0; i < len(final); i += c.Rep {
		list = append(list, ldiff.Element{Id: final[i].Id, Head: "stale-" + final[i].Head})
	}
	d := ldiff.New(c.DF, c.TH)
	d.Set(append(list, final...)...)
	return d
}

// ---- building the two sides ------------------------------------------------------------

func materialise(c Case) (ids []string, a, b setmodel.Set) {
	a, b = setmodel.Set{}, setmodel.Set{}
	seen := map[string]bool{}
	for i, sp := range c.Ids {
		id := sp.ID()
		if seen[id] { // normalisation: a repeated universe entry is ignored
			continue
		}
		seen[id] = true
		ids = append(ids, id)
		if i < len(c.A) && c.A[i] > 0 {
			a[id] = c.head(c.A[i])
		}
		if i < len(c.B) && c.B[i] > 0 {
			b[id] = c.head(c.B[i])
		}
	}
	return
}

func build(c Case, ids []string, s setmodel.Set) ldiff.Diff {
	switch c.Build {
	case 0:
		return fill(c, s)
	case 1:
		d := ldiff.New(c.DF, c.TH)
		for _, id := range ids {
			if h, ok := s[id]; ok {
				d.Set(ldiff.Element{Id: id, Head: h})
			}
		}
		return d
	default:
		d := ldiff.New(c.DF, c.TH)
		for _, id := range ids {
			d.Set(ldiff.Element{Id: id, Head: "old-" + s[id]})
		}
		if len(s) > 0 {
			d.Set(s.ElementsByID()...)
		}
		for _, id := range ids {
			if _, ok := s[id]; !ok {
				if err := d.RemoveId(id); err != nil {
					panic("harness: RemoveId of an inserted id: " + err.Error())
				}
			}
		}
		return d
	}
}

// buildFolded is the local side of build mode 3. folded = the largest number of
// subdivision levels a single removal had to fold back (model view: depth of the
// subdivision around the removed position before and after), pre = the content before the
// removals.
func buildFolded(c Case, ids []string, s, other setmodel.Set) (d ldiff.Diff, folded int, pre setmodel.Set) {
	pre = s.Clone()
	for _, id := range ids {
		if _, ok := pre[id]; ok {
			continue
		}
		if h, ok := other[id]; ok {
			pre[id] = h
		} else {
			pre[id] = c.head(1)
		}
	}
	d = fill(c, pre)
	cur := pre.Hashes()
	for _, id := range ids {
		if _, ok := s[id]; ok {
			continue
		}
		h := setmodel.HashOf(id)
		before, _ := setmodel.SplitDepth(cur, c.DF, c.TH, h)
		if err := d.RemoveId(id); err != nil {
			panic("harness: RemoveId of an inserted id: " + err.Error())
		}
		i := sort.Search(len(cur), func(i int) bool { return cur[i] >= h })
		cur = append(cur[:i], cur[i+1:]...)
		after, _ := setmodel.SplitDepth(cur, c.DF, c.TH, h)
		folded = max(folded, before-after)
	}
	return d, folded, pre
}

func sameSet(a, b setmodel.Set) bool {
	if len(a) != len(b) {
		return false
	}
	for k, v := range a {
		if w, ok := b[k]; !ok || w != v {
			return false
		}
	}
	return true
}

// Tiny indexes (the enumeration) are built once per (parameters, universe, contents, build
// mode) and shared between cases: a diff only reads both indexes, and the key is the full
// description of how the index was made, so run stays a function of the case.
var buildCache = map[string]ldiff.Diff{}

func cachedBuild(c Case, ids []string, side []int, s setmodel.Set) ldiff.Diff {
	if c.Build == 3 {
		c.Build = 0 // the fresh side of a fold case
	}
	if len(c.Ids) > 4 {
		return build(c, ids, s)
	}
	key := fmt.Sprint(c.DF, c.TH, c.Build, c.E, c.Rep, c.Ids, side)
	if d, ok := buildCache[key]; ok {
		return d
	}
	if len(buildCache) > 4096 {
		clear(buildCache)
	}
	d := build(c, ids, s)
	buildCache[key] = d
	return d
}

// ---- observer around Remote.Ranges -----------------------------------------------------

var errRounds = errors.New("round bound exceeded")

// recorder counts the rounds (= Ranges calls), enforces the termination bound and
// reconstructs which of the three per-range branches the comparing side takes:
// equal hash / compared by elements / subdivided.
type recorder struct {
	inner     ldiff.Remote
	local     ldiff.Diff
	maxRounds int
	rounds    int
	ranges    int
	equal     int
	elements  int
	subdivide int
	ambiguous int // both sides answered an empty hash although one of them has elements there
}

func (r *recorder) Ranges(ctx context.Context, ranges []ldiff.Range, resBuf []ldiff.RangeResult) ([]ldiff.RangeResult, error) {
	r.rounds++
	if r.rounds > r.maxRounds {
		return nil, errRounds
	}
	r.ranges += len(ranges)
	res, err := r.inner.Ranges(ctx, ranges, resBuf)
	if err != nil || len(res) != len(ranges) {
		return res, err
	}
	if r.local == nil { // rounds only
		return res, nil
	}
	mine, _ := r.local.Ranges(ctx, ranges, nil)
	for i, rg := range ranges {
		if r.rounds > 1 && !rg.Elements {
			r.subdivide++ // a hash-only request below the top range is a child of a subdivided range
		}
		if len(mine[i].Hash) == 0 && len(res[i].Hash) == 0 && mine[i].Count+res[i].Count > 0 {
			r.ambiguous++
		}
		switch {
		case bytes.Equal(mine[i].Hash, res[i].Hash):
			r.equal++
		case rg.Elements || len(res[i].Elements) == res[i].Count:
			r.elements++
		}
	}
	return res, nil
}

// ---- known findings (only consulted if listed in known_findings.json with status "known") ----

const (
	// compareResults takes two empty hashes for "equal ranges" although an empty hash is
	// also what a side answers for a range it holds no division for.
	sigEmptyHash = "empty-hash-taken-as-equal"
	// getBottomRange computes bucket == divideFactor for a position in the alignment
	// remainder of a range whose size is not a multiple of the divide factor: nil range.
	sigRemainder = "position-in-alignment-remainder"
	// C08: indexes built through updates/removals are subdivided differently (count drift).
	sigHistory = "history-built-index"
)

func excludedByConstruction(c Case, ids []string) string {
	if c.Build != 0 && vstat.KnownSignature(prop, sigHistory) {
		return sigHistory
	}
	if vstat.KnownSignature(prop, sigRemainder) || vstat.KnownSignature("C08", sigRemainder) {
		for _, id := range ids {
			if setmodel.InRemainder(setmodel.HashOf(id), c.DF) {
				return sigRemainder
			}
		}
	}
	return ""
}

// ---- the property ------------------------------------------------------------------------

var depthCache = map[int]int{}

func maxDepth(df int) int {
	d, ok := depthCache[df]
	if !ok {
		d = setmodel.MaxDepth(df)
		depthCache[df] = d
	}
	return d
}

func sortedCopy(x []string) []string {
	y := append([]string{}, x...)
	sort.Strings(y)
	return y
}

func same(got, want []string) bool {
	if len(got) != len(want) {
		return false
	}
	g := sortedCopy(got)
	for i := range g {
		if g[i] != want[i] {
			return false
		}
	}
	return true
}

func q(x []string) string {
	if len(x) > 12 {
		return fmt.Sprintf("%q...(%d)", x[:12], len(x))
	}
	return fmt.Sprintf("%q", x)
}

func run(c Case) (vstat.Outcome, error) {
	var out vstat.Outcome
	if c.DF < 2 || c.TH < 1 {
		return out, nil // outside the documented parameter domain
	}
	ids, ma, mb := materialise(c)
	hs := make([]uint64, len(ids))
	for i, id := range ids {
		hs[i] = setmodel.HashOf(id)
	}
	sort.Slice(hs, func(i, j int) bool { return hs[i] < hs[j] })
	if setmodel.TooClose(hs) {
		return out, nil // outside the domain (near-collisions of the position hash), see check.json
	}
	if sig := excludedByConstruction(c, ids); sig != "" {
		out.Excluded, out.Sig = sig, vstat.HashJSON(c)
		return out, nil
	}
	var local ldiff.Diff
	folded, vsPre := 0, false
	if c.Build == 3 {
		var pre setmodel.Set
		local, folded, pre = buildFolded(c, ids, ma, mb)
		vsPre = sameSet(pre, mb)
	} else {
		local = cachedBuild(c, ids, c.A, ma)
	}
	remote := cachedBuild(c, ids, c.B, mb)
	ctx := context.Background()

	wNew, wChanged, wRemoved := setmodel.Diff(ma, mb)
	cNew, cOurs, cTheirs, cRemoved := setmodel.CompareDiff(ma, mb)
	differ := len(wNew)+len(wChanged)+len(wRemoved) > 0
	maxRounds := maxDepth(c.DF) + 2

	var br [3]bool
	oneDiff := func(tr, variant int) (*recorder, error) {
		rec := &recorder{inner: setmodel.RemoteFor(tr, remote), local: local, maxRounds: maxRounds}
		if tr != 0 && !vstat.KnownSignature(prop, sigEmptyHash) {
			rec.local = nil // the branches are reconstructed on the in-process runs; the wire runs ask the same ranges
		}
		where := fmt.Sprintf("%s %s (df=%d th=%d build=%d |local|=%d |remote|=%d)", setmodel.Transports[tr],
			[]string{"Diff", "CompareDiff"}[variant], c.DF, c.TH, c.Build, len(ma), len(mb))
		if variant == 0 {
			gNew, gChanged, gRemoved, err := local.Diff(ctx, rec)
			if errors.Is(err, errRounds) {
				return rec, fmt.Errorf("%s: no termination within %d rounds", where, maxRounds)
			}
			if err != nil {
				return rec, fmt.Errorf("%s: error %v", where, err)
			}
			if !same(gNew, wNew) || !same(gChanged, wChanged) || !same(gRemoved, wRemoved) {
				return rec, fmt.Errorf("%s:\n new     got %s want %s\n changed got %s want %s\n removed got %s want %s", where,
					q(sortedCopy(gNew)), q(wNew), q(sortedCopy(gChanged)), q(wChanged), q(sortedCopy(gRemoved)), q(wRemoved))
			}
			return rec, nil
		}
		gNew, gOurs, gTheirs, gRemoved, err := local.(ldiff.CompareDiff).CompareDiff(ctx, rec)
		if errors.Is(err, errRounds) {
			return rec, fmt.Errorf("%s: no termination within %d rounds", where, maxRounds)
		}
		if err != nil {
			return rec, fmt.Errorf("%s: error %v", where, err)
		}
		if !same(gNew, cNew) || !same(gOurs, cOurs) || !same(gTheirs, cTheirs) || !same(gRemoved, cRemoved) {
			return rec, fmt.Errorf("%s:\n new     got %s want %s\n ours    got %s want %s\n theirs  got %s want %s\n removed got %s want %s", where,
				q(sortedCopy(gNew)), q(cNew), q(sortedCopy(gOurs)), q(cOurs), q(sortedCopy(gTheirs)), q(cTheirs), q(sortedCopy(gRemoved)), q(cRemoved))
		}
		return rec, nil
	}
	for tr := range setmodel.Transports {
		for variant := 0; variant < 2; variant++ {
			rec, err := oneDiff(tr, variant)
			if err != nil {
				if rec.ambiguous > 0 && vstat.KnownSignature(prop, sigEmptyHash) {
					out.Excluded, out.Sig = sigEmptyHash, vstat.HashJSON(c)
					return out, nil
				}
				return out, err
			}
			br[0] = br[0] || rec.equal > 0
			br[1] = br[1] || rec.elements > 0
			br[2] = br[2] || rec.subdivide > 0
			if tr == 0 && variant == 0 {
				vstat.Count("rounds", int64(rec.rounds))
				vstat.Count("ranges_requested", int64(rec.ranges))
				if rec.rounds >= 6 {
					out.Classes = append(out.Classes, "rounds>=6")
				}
				if rec.rounds >= 12 {
					out.Classes = append(out.Classes, "rounds>=12")
				}
			}
		}
	}
	// The gate in front of the diff (DiffManager.TryDiff): a peer that is told "no sync
	// needed" reports nothing, so that answer is only allowed when nothing differs.
	needs, err := setmodel.HeadSyncRemote(remote).DiffTypeCheck(ctx, local)
	if err != nil {
		return out, fmt.Errorf("DiffTypeCheck: error %v", err)
	}
	if !needs && differ {
		return out, fmt.Errorf("DiffTypeCheck says in sync (df=%d th=%d build=%d) but the sets differ: new %s changed %s removed %s",
			c.DF, c.TH, c.Build, q(wNew), q(wChanged), q(wRemoved))
	}

	// classification
	out.Sig = vstat.HashJSON(c)
	n := 0
	for _, b := range br {
		if b {
			n++
		}
	}
	out.NonTrivial = n >= 2
	if br[0] {
		out.Classes = append(out.Classes, "branch-equal-hash")
	}
	if br[1] {
		out.Classes = append(out.Classes, "branch-elements")
	}
	if br[2] {
		out.Classes = append(out.Classes, "branch-subdivide")
	}
	if n == 3 {
		out.Classes = append(out.Classes, "all-three-branches")
	}
	if len(wNew) > 0 {
		out.Classes = append(out.Classes, "has-new")
	}
	if len(cOurs) > 0 {
		out.Classes = append(out.Classes, "has-changed-ours")
	}
	if len(cTheirs) > 0 {
		out.Classes = append(out.Classes, "has-changed-theirs")
	}
	if len(wRemoved) > 0 {
		out.Classes = append(out.Classes, "has-removed")
	}
	if !differ {
		out.Classes = append(out.Classes, "equal-sets")
	}
	out.Classes = append(out.Classes, fmt.Sprintf("build-%d", c.Build))
	emptyAny, emptyChanged := false, false
	for id, h := range ma {
		if h == "" {
			emptyAny = true
		}
		if rh, ok := mb[id]; ok && rh != h && (rh == "" || h == "") {
			emptyChanged = true
		}
	}
	for _, h := range mb {
		if h == "" {
			emptyAny = true
		}
	}
	if emptyAny {
		out.Classes = append(out.Classes, "head-empty")
	}
	if emptyChanged {
		out.Classes = append(out.Classes, "head-empty-vs-other-head")
	}
	if c.Rep > 0 && (c.Build == 0 || c.Build == 3) {
		out.Classes = append(out.Classes, "fill-with-repeated-ids")
	}
	if folded >= 2 {
		out.Classes = append(out.Classes, "history-multi-level-fold")
		switch {
		case vsPre:
			out.Classes = append(out.Classes, "fold-vs-pre-removal-content")
		case !differ:
			out.Classes = append(out.Classes, "fold-vs-same-content")
		default:
			out.Classes = append(out.Classes, "fold-vs-modified-content")
		}
	}
	if d := depthOfUnion(ma, mb, c.DF, c.TH); d >= 3 {
		out.Classes = append(out.Classes, "split-depth>=3")
		if d >= 8 {
			out.Classes = append(out.Classes, "split-depth>=8")
		}
	}
	switch sz := max(len(ma), len(mb)); {
	case sz >= 10000:
		out.Classes = append(out.Classes, "size>=10000")
	case sz >= 1000:
		out.Classes = append(out.Classes, "size>=1000")
	case sz >= 100:
		out.Classes = append(out.Classes, "size>=100")
	}
	return out, nil
}

// depthOfUnion: how deep the remote index is subdivided (model view), sampled on the
// paths of at most 64 of its elements.
func depthOfUnion(a, b setmodel.Set, df, th int) int {
	hs := b.Hashes()
	best := 0
	step := max(1, len(hs)/64)
	for i := 0; i < len(hs); i += step {
		if d, _ := setmodel.SplitDepth(hs, df, th, hs[i]); d > best {
			best = d
		}
	}
	return best
}

// ---- generators ---------------------------------------------------------------------------

var dfs = []int{2, 3, 4, 7, 16}
var ths = []int{1, 2, 3, 8}

// universes of 4 ids for the exhaustive enumeration
func universes() [][]setmodel.IDSpec {
	const base = 0x5a5a5a5a00000000
	return [][]setmodel.IDSpec{
		// skewed: four neighbours in the brute-forced pool (share ~19 leading hash bits)
		{setmodel.Rank(200000), setmodel.Rank(200001), setmodel.Rank(200002), setmodel.Rank(200003)},
		// spread over the ring, two of them in the same top bucket for every divide factor
		{setmodel.Rank(1000), setmodel.Rank(9000), setmodel.Rank(setmodel.PoolSize / 2), setmodel.Rank(setmodel.PoolSize - 7)},
		// deep: solved ids 2^12..2^14 apart (about 50 binary levels), plus the last position of the ring
		{setmodel.Exact(base, 0), setmodel.Exact(base+1<<12, 0), setmodel.Exact(base+1<<14, 0), setmodel.Exact(^uint64(0), 0)},
	}
}

func shardOf() (shard, shards int) {
	shards, _ = strconv.Atoi(os.Getenv("VERIF_SHARDS"))
	shard, _ = strconv.Atoi(os.Getenv("VERIF_SHARD"))
	if shards < 1 {
		shards = 1
	}
	return shard % shards, shards
}

// enumerate: every pair of indexes over a universe of 4 ids (absent / head a / head b on
// each side: 81 x 81 pairs) x divide factor x threshold x universe x build mode {0,2,3}
// (history builds 2 and 3 on the skewed and the deep universe with splitting thresholds;
// for build 3 every pair is "local = all four ids inserted, then folded down to A" against a
// fresh B: B = pre-removal content, B = A and every modification are all among the pairs).
// Within one parameter combination small sets come first. Split over the shards of the run.
func enumerate(yield func(Case) bool) {
	shard, shards := shardOf()
	var states [][]int
	for n := 0; n < 81; n++ {
		s := []int{n % 3, n / 3 % 3, n / 9 % 3, n / 27 % 3}
		states = append(states, s)
	}
	weight := func(s []int) int {
		w := 0
		for _, v := range s {
			if v > 0 {
				w++
			}
		}
		return w
	}
	sort.SliceStable(states, func(i, j int) bool { return weight(states[i]) < weight(states[j]) })
	k := 0
	for ui, u := range universes() {
		for _, df := range dfs {
			for _, th := range ths {
				for _, bm := range []int{0, 2, 3} {
					switch {
					case th == 8 && (bm != 0 || ui != 1):
						continue // 4 ids never exceed threshold 8: one universe, plain build
					case bm == 2 && (ui == 1 || ui == 2 && df != 2 && df != 16):
						continue // update histories: skewed universe, deep universe for two divide factors
					case bm == 3 && (ui == 1 || ui == 2 && th == 3):
						continue // fold histories: the clustered universes
					}
					for _, a := range states {
						for _, b := range states {
							k++
							if k%shards != shard {
								continue
							}
							if !yield(Case{DF: df, TH: th, Ids: u, A: a, B: b, Build: bm, E: (df + th + ui) % 2, Rep: (df + ui) % 3}) {
								return
							}
						}
					}
				}
			}
		}
	}
}

// genCase: larger random sets. The universe is made of clusters (runs of neighbouring
// pool ranks: same bucket for many levels), spread ids, and solved ids on the borders of
// the subdivision; both sides take most ids with equal heads and differ in a drawn
// fraction (like two peers that are nearly in sync), or are drawn independently.
func genCase(rt *rapid.T) Case {
	var c Case
	if rapid.IntRange(0, 9).Draw(rt, "paramKind") < 8 {
		c.DF = rapid.SampledFrom(dfs).Draw(rt, "df")
		c.TH = rapid.SampledFrom(ths).Draw(rt, "th")
	} else {
		c.DF = rapid.IntRange(2, 70).Draw(rt, "dfAny")
		c.TH = rapid.IntRange(1, 70).Draw(rt, "thAny")
	}
	c.Build = rapid.SampledFrom([]int{0, 0, 1, 2, 2, 3, 3}).Draw(rt, "build")
	c.E = rapid.SampledFrom([]int{0, 0, 0, 1, 2, 3, 4, 5, 6}).Draw(rt, "emptyHead")
	c.Rep = rapid.SampledFrom([]int{0, 0, 0, 1, 2, 5}).Draw(rt, "rep")
	if rapid.IntRange(0, 3).Draw(rt, "foldScenario") == 0 {
		return genFold(rt, c)
	}
	maxN := vstat.Pick(400, 3000)
	sizeKind := rapid.IntRange(0, 19).Draw(rt, "sizeKind")
	switch {
	case sizeKind == 0:
		maxN = vstat.Pick(4000, 30000)
	case sizeKind < 8:
		maxN = 40
	}
	target := rapid.IntRange(0, maxN).Draw(rt, "n")
	for len(c.Ids) < target {
		switch rapid.IntRange(0, 9).Draw(rt, "part") {
		case 0, 1, 2, 3, 4: // cluster of neighbouring ranks
			r0 := rapid.IntRange(0, setmodel.PoolSize-1).Draw(rt, "r0")
			n := rapid.IntRange(1, min(200, target-len(c.Ids)+1)).Draw(rt, "len")
			stride := rapid.SampledFrom([]int{1, 1, 1, 2, 5}).Draw(rt, "stride")
			for i := 0; i < n; i++ {
				c.Ids = append(c.Ids, setmodel.Rank(r0+i*stride))
			}
		case 5, 6, 7: // spread
			n := rapid.IntRange(1, min(200, target-len(c.Ids)+1)).Draw(rt, "len")
			for i := 0; i < n; i++ {
				c.Ids = append(c.Ids, setmodel.Rank(rapid.IntRange(0, setmodel.PoolSize-1).Draw(rt, "rank")))
			}
		case 8: // the two ends of the pool / of the ring
			c.Ids = append(c.Ids, setmodel.Rank(0), setmodel.Rank(1), setmodel.Rank(setmodel.PoolSize-1), setmodel.Rank(setmodel.PoolSize-2))
			if rapid.Bool().Draw(rt, "ringEnds") {
				c.Ids = append(c.Ids, setmodel.Exact(0, 0), setmodel.Exact(^uint64(0), 0))
			}
		default: // solved ids around a border of the subdivision at a drawn depth
			r := setmodel.Top
			depth := rapid.IntRange(1, 6).Draw(rt, "depth")
			for d := 0; d < depth; d++ {
				subs, ok := setmodel.Sub(r, c.DF)
				if !ok {
					break
				}
				r = subs[rapid.IntRange(0, len(subs)-1).Draw(rt, "bucket")]
			}
			// positions at least 2^16 apart inside the range, plus its two ends
			c.Ids = append(c.Ids, setmodel.Exact(r.From, 0), setmodel.Exact(r.To, 0))
			if r.To-r.From > 1<<20 {
				n := rapid.IntRange(0, 6).Draw(rt, "inner")
				for i := 0; i < n; i++ {
					off := rapid.Uint64Range(1, 15).Draw(rt, "off") << 16
					c.Ids = append(c.Ids, setmodel.Exact(r.From+off, 0))
				}
			}
		}
	}
	c.Ids = setmodel.SpacedOut(c.Ids)
	c.A = make([]int, len(c.Ids))
	c.B = make([]int, len(c.Ids))
	mode := rapid.IntRange(0, 3).Draw(rt, "mode")
	pct := rapid.SampledFrom([]int{0, 1, 3, 10, 40}).Draw(rt, "pct")
	for i := range c.Ids {
		switch mode {
		case 0: // independent
			c.A[i] = rapid.IntRange(0, 3).Draw(rt, "a")
			c.B[i] = rapid.IntRange(0, 3).Draw(rt, "b")
		default: // nearly in sync
			hd := 1 + i%4
			c.A[i], c.B[i] = hd, hd
			if rapid.IntRange(0, 99).Draw(rt, "d") < pct {
				c.A[i] = rapid.IntRange(0, 6).Draw(rt, "a")
				c.B[i] = rapid.IntRange(0, 6).Draw(rt, "b")
			}
		}
	}
	return c
}

// genFold: the scenario of build mode 3 made likely. A few clusters of threshold+1
// (sometimes +2) ids that share a long hash prefix (neighbouring pool ranks, or solved ids
// 2^16..2^20 apart) so that each cluster is subdivided many levels deep; the remote holds
// all of them; the local index held them too and then removed one or two per cluster (fold
// of >= 2 levels, nothing re-inserted); optionally the remote changed a head or lost an id
// meanwhile; some unrelated ids equal on both sides.
func genFold(rt *rapid.T, c Case) Case {
	c.Build = 3
	if c.TH > 12 {
		c.TH = 1 + c.TH%12
	}
	nClusters := rapid.IntRange(1, 4).Draw(rt, "clusters")
	for k := 0; k < nClusters; k++ {
		n := c.TH + 1 + rapid.SampledFrom([]int{0, 0, 0, 1}).Draw(rt, "extra")
		drop := rapid.IntRange(1, 2).Draw(rt, "drop")
		first := len(c.Ids)
		if rapid.Bool().Draw(rt, "solved") {
			base := rapid.Uint64Range(1<<32, ^uint64(0)-1<<32).Draw(rt, "base")
			shift := rapid.IntRange(16, 20).Draw(rt, "shift")
			for i := 0; i < n; i++ {
				c.Ids = append(c.Ids, setmodel.Exact(base+uint64(i)<<shift, 0))
			}
		} else {
			r0 := rapid.IntRange(0, setmodel.PoolSize-1).Draw(rt, "r0")
			for i := 0; i < n; i++ {
				c.Ids = append(c.Ids, setmodel.Rank(r0+i))
			}
		}
		for i := first; i < len(c.Ids); i++ {
			c.A = append(c.A, 1+i%3)
			c.B = append(c.B, 1+i%3)
		}
		for j := 0; j < drop; j++ { // the local side removed these
			c.A[first+rapid.IntRange(0, n-1).Draw(rt, "dropped")] = 0
		}
		switch rapid.IntRange(0, 5).Draw(rt, "remoteChange") {
		case 0: // the remote changed a head meanwhile
			c.B[first+rapid.IntRange(0, n-1).Draw(rt, "changed")] = 4
		case 1: // the remote lost an id meanwhile
			c.B[first+rapid.IntRange(0, n-1).Draw(rt, "lost")] = 0
		}
	}
	noise := rapid.IntRange(0, 20).Draw(rt, "noise")
	for i := 0; i < noise; i++ {
		c.Ids = append(c.Ids, setmodel.Rank(rapid.IntRange(0, setmodel.PoolSize-1).Draw(rt, "rank")))
		hd := rapid.IntRange(0, 3).Draw(rt, "noiseHead")
		c.A = append(c.A, hd)
		c.B = append(c.B, hd)
	}
	// keep the universe inside the domain, A and B aligned with it
	var ids []setmodel.IDSpec
	var a, b []int
	for _, i := range setmodel.SpacedOutIdx(c.Ids) {
		ids, a, b = append(ids, c.Ids[i]), append(a, c.A[i]), append(b, c.B[i])
	}
	c.Ids, c.A, c.B = ids, a, b
	return c
}

// ---- tests ----------------------------------------------------------------------------------

func TestExhaustive(t *testing.T) { vstat.Enumerate(t, prop, enumerate, run) }
func TestRandom(t *testing.T)     { vstat.Check(t, prop, genCase, run) }
func TestReplay(t *testing.T) {
	for _, name := range []string{"TestExhaustive", "TestRandom", "TestRegEmptyHashTakenAsEqual", "TestRegPositionInAlignmentRemainder", "TestRegHistoryBuiltIndexes", "TestRegFoldedHistoryStaleRanges", "TestRegEmptyHeads", "TestRegRepeatedIdInFill"} {
		t.Run(name, func(t *testing.T) { vstat.Replay(t, prop, name, run) })
	}
}

// ---- regressions: minimised failures found by this package on the pinned tree ----------------

var skewed4 = []setmodel.IDSpec{setmodel.Rank(200000), setmodel.Rank(200001), setmodel.Rank(200002), setmodel.Rank(200003)}

// Local {o60oj,o12vs}, remote {o533x,o1obu}, one Set call each, df=3 th=1: the remote is
// subdivided one level deeper than the local side; for the child range that holds the
// local o12vs and no remote element both answer an empty hash (remote: empty range;
// local: no such range, elements sent along) and compareResults returns "equal":
// o12vs is never reported as removed.
func TestRegEmptyHashTakenAsEqual(t *testing.T) {
	vstat.One(t, prop, Case{DF: 3, TH: 1, Ids: skewed4, A: []int{1, 1, 0, 0}, B: []int{0, 0, 1, 1}}, run)
}

// An id at the last position of the ring with divide factor 3 (2^64 = 3*k+1): Set panics
// with a nil range in getBottomRange (bucket == divideFactor).
func TestRegPositionInAlignmentRemainder(t *testing.T) {
	vstat.One(t, prop, Case{DF: 3, TH: 1, Ids: []setmodel.IDSpec{setmodel.Exact(^uint64(0), 0)}, A: []int{1}, B: []int{0}}, run)
	vstat.One(t, prop, Case{DF: 7, TH: 2, Ids: []setmodel.IDSpec{setmodel.Exact(^uint64(0)-1, 0), setmodel.Rank(5)}, A: []int{1, 1}, B: []int{2, 0}, Build: 2}, run)
}

// Indexes that went through updates and removals (C08's count drift / one-level merge)
// make the diff miss ids: local {o60oj}, remote {o12vs,o533x}, df=2 th=2.
func TestRegHistoryBuiltIndexes(t *testing.T) {
	vstat.One(t, prop, Case{DF: 2, TH: 2, Ids: skewed4, A: []int{1, 0, 0, 0}, B: []int{0, 1, 1, 0}, Build: 2}, run)
}

// Seeded change C07-b (sub-range tuples computed once and reused for every merge level in
// removeElement): the local index held {o60oj,o12vs} (neighbours, subdivided ~19 levels,
// df=2 th=1), removed o12vs (fold of every level); only the lowest level's entries left the
// ranges map, the stale intermediate ones answer with the pre-removal hash, which equals
// the hash of a peer that still holds both ids: o12vs is not reported as new. Passes on a
// correct tree.
func TestRegFoldedHistoryStaleRanges(t *testing.T) {
	vstat.One(t, prop, Case{DF: 2, TH: 1, Ids: skewed4, A: []int{1, 0, 0, 0}, B: []int{1, 1, 0, 0}, Build: 3}, run)
	vstat.One(t, prop, Case{DF: 16, TH: 2, Ids: skewed4, A: []int{1, 2, 0, 0}, B: []int{1, 2, 1, 0}, Build: 3}, run)
	vstat.One(t, prop, Case{DF: 4, TH: 3, Ids: skewed4, A: []int{1, 2, 0, 1}, B: []int{1, 2, 2, 1}, Build: 3}, run)
}

// Seeded change C07-a5 (compareElementsGreater using "" for "id absent"): an id both sides
// hold, with the empty head on the remote side / the local side / both sides (the ranges
// differ through a second id). Passes on a correct tree: "" is a head like any other, the
// smallest in string order.
func TestRegEmptyHeads(t *testing.T) {
	two := skewed4[:2]
	vstat.One(t, prop, Case{DF: 2, TH: 1, Ids: two, A: []int{2, 1}, B: []int{1, 2}, E: 1}, run)  // remote "" / local ""
	vstat.One(t, prop, Case{DF: 16, TH: 8, Ids: two, A: []int{1, 1}, B: []int{1, 2}, E: 1}, run) // "" on both sides, neighbour differs
	vstat.One(t, prop, Case{DF: 3, TH: 2, Ids: skewed4, A: []int{1, 2, 0, 1}, B: []int{2, 1, 1, 1}, E: 1, Build: 2}, run)
}

// Seeded change C08-a5 (Set on an empty container skips the remove-before-insert lookup):
// a fill list that repeats an id; the last occurrence counts.
func TestRegRepeatedIdInFill(t *testing.T) {
	vstat.One(t, prop, Case{DF: 2, TH: 1, Ids: skewed4, A: []int{1, 2, 1, 0}, B: []int{1, 2, 1, 2}, Rep: 1}, run)
	vstat.One(t, prop, Case{DF: 16, TH: 2, Ids: skewed4, A: []int{1, 1, 0, 0}, B: []int{1, 1, 1, 1}, Rep: 2, Build: 3}, run)
}
