package zzprobe

import (
	"testing"

	"github.com/anyproto/any-sync/app/ldiff"
	"verif/harness/internal/setmodel"
)

func TestCollide(t *testing.T) {
	d := ldiff.New(32, 2)
	for i := 1; i <= 3; i++ {
		d.Set(ldiff.Element{Id: setmodel.ExactID(0x1234567890abcdef, i), Head: "h"})
	}
	t.Log(d.Hash())
}
