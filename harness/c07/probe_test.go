package c07

import (
	"context"
	"fmt"
	"testing"

	"github.com/anyproto/any-sync/app/ldiff"
	"verif/harness/internal/setmodel"
)

type tracer struct{ inner, local ldiff.Diff }

func (t tracer) Ranges(ctx context.Context, rs []ldiff.Range, buf []ldiff.RangeResult) ([]ldiff.RangeResult, error) {
	res, err := t.inner.Ranges(ctx, rs, buf)
	mine, _ := t.local.Ranges(ctx, rs, nil)
	for i, r := range rs {
		fmt.Printf("  ask [%x,%x] el=%v -> theirs hash=%x count=%d els=%v | mine hash=%x count=%d els=%v\n", r.From, r.To, r.Elements, res[i].Hash[:min(4, len(res[i].Hash))], res[i].Count, res[i].Elements, mine[i].Hash[:min(4, len(mine[i].Hash))], mine[i].Count, mine[i].Elements)
	}
	fmt.Println("  --")
	return res, err
}

func TestProbe(t *testing.T) {
	ids := []string{setmodel.RankID(200000), setmodel.RankID(200001), setmodel.RankID(200002), setmodel.RankID(200003)}
	for _, id := range ids {
		fmt.Printf("%s %x\n", id, setmodel.HashOf(id))
	}
	for df := 2; df <= 3; df++ {
		for a := 0; a < 16; a++ {
			for b := 0; b < 16; b++ {
				sa, sb := setmodel.Set{}, setmodel.Set{}
				for i, id := range ids {
					if a&(1<<i) != 0 {
						sa[id] = "a"
					}
					if b&(1<<i) != 0 {
						sb[id] = "a"
					}
				}
				la, lb := setmodel.Fresh(df, 1, sa), setmodel.Fresh(df, 1, sb)
				n, c, r, _ := la.Diff(context.Background(), lb)
				wn, wc, wr := setmodel.Diff(sa, sb)
				if !same(n, wn) || !same(c, wc) || !same(r, wr) {
					fmt.Printf("df=%d local=%v remote=%v: got new %v changed %v removed %v; want %v %v %v\n", df, sa, sb, n, c, r, wn, wc, wr)
					la.Diff(context.Background(), tracer{lb, la})
					return
				}
			}
		}
	}
}
