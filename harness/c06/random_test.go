package c06

import (
	"context"
	"fmt"
	"sort"
	"testing"

	"pgregory.net/rapid"

	"github.com/anyproto/any-sync/commonspace/object/tree/objecttree"
	"github.com/anyproto/any-sync/commonspace/object/tree/treechangeproto"
	"github.com/anyproto/any-sync/util/crypto"

	"verif/harness/internal/accounts"
	"verif/harness/internal/treesim"
	"verif/harness/internal/vstat"
)

// HOp is one step of the honest history the change set is harvested from.
type HOp struct {
	K string `json:"k"`
	A int    `json:"a,omitempty"`
	B int    `json:"b,omitempty"`
	C int    `json:"c,omitempty"`
}

// FOp is one step of re-feeding the harvested set to a fresh replica (O selects it).
type FOp struct {
	K string `json:"k"`
	O int    `json:"o,omitempty"`
	A int    `json:"a,omitempty"`
	B int    `json:"b,omitempty"`
	C int    `json:"c,omitempty"`
}

// RCase: an honest multi-replica history (signed changes, real SyncTrees), the replica
// whose stored set is harvested, and the way the set is re-fed to two fresh replicas.
type RCase struct {
	Seed uint64 `json:"seed"`
	N    int    `json:"n"`
	Hist []HOp  `json:"hist"`
	Src  int    `json:"src"`
	Feed []FOp  `json:"feed"`
	Win  int    `json:"win"` // batch size of the final in-order re-delivery
}

const maxChanges = 58

func genCase(rt *rapid.T) RCase {
	n := rapid.SampledFrom([]int{2, 2, 3}).Draw(rt, "n")
	c := RCase{
		Seed: rapid.Uint64Range(1, 1<<40).Draw(rt, "seed"),
		N:    n,
		Src:  rapid.IntRange(0, n-1).Draw(rt, "src"),
		Win:  rapid.IntRange(1, 9).Draw(rt, "win"),
	}
	nh := rapid.IntRange(8, vstat.Pick(48, 80)).Draw(rt, "nhist")
	for i := 0; i < nh; i++ {
		var op HOp
		switch rapid.IntRange(0, 21).Draw(rt, "hk") {
		case 0, 1, 2, 3, 4:
			op = HOp{K: "edit", A: rapid.IntRange(0, n-1).Draw(rt, "r"), B: rapid.IntRange(0, 5).Draw(rt, "snap")}
		case 5, 6, 7, 8, 9:
			op = HOp{K: "fork", A: rapid.IntRange(0, n-1).Draw(rt, "r"), B: rapid.IntRange(0, n-1).Draw(rt, "r2"), C: rapid.IntRange(0, 3).Draw(rt, "snapAfter")}
		case 10, 11, 12, 13, 14, 15:
			op = HOp{K: "deliver", A: rapid.IntRange(0, 12).Draw(rt, "idx"), B: rapid.SampledFrom([]int{0, 0, 0, 0, 1, 2}).Draw(rt, "fate")}
		case 16:
			op = HOp{K: "twin", A: rapid.IntRange(0, n-1).Draw(rt, "r"), B: rapid.IntRange(0, n-1).Draw(rt, "r2")}
		case 17:
			op = HOp{K: "reopen", A: rapid.IntRange(0, n-1).Draw(rt, "r")}
		case 18:
			op = HOp{K: "flush", A: rapid.IntRange(1, 6).Draw(rt, "k")}
		case 20, 21:
			// two concurrent edits (two heads), a delivery that attaches but is refused by the
			// validator (rolled back), then an addition: forged extension of one head / local edit / remote edit
			op = HOp{K: "rollback", A: rapid.IntRange(0, n-1).Draw(rt, "r"), B: rapid.IntRange(0, n-1).Draw(rt, "r2"), C: rapid.IntRange(0, 63).Draw(rt, "variant")}
		default:
			op = HOp{K: "sync", A: rapid.IntRange(0, n-1).Draw(rt, "r"), B: rapid.IntRange(0, n-1).Draw(rt, "p")}
		}
		c.Hist = append(c.Hist, op)
	}
	nf := rapid.IntRange(5, vstat.Pick(22, 40)).Draw(rt, "nfeed")
	for i := 0; i < nf; i++ {
		op := FOp{O: rapid.IntRange(0, 1).Draw(rt, "o"), A: rapid.IntRange(0, 1000).Draw(rt, "a"), B: rapid.IntRange(0, 40).Draw(rt, "b"), C: rapid.IntRange(0, 7).Draw(rt, "c")}
		switch rapid.IntRange(0, 21).Draw(rt, "fk") {
		case 0, 1, 2, 3, 4:
			op.K = "subset"
		case 5, 6, 7, 8:
			op.K = "window"
		case 9, 10, 11, 12:
			op.K = "loader"
		case 13, 14:
			op.K = "dup"
		case 15, 16:
			op.K = "reopen"
		case 17:
			op.K = "copy"
		case 20, 21:
			op.K = "reject"
		default:
			op.K = "history"
		}
		c.Feed = append(c.Feed, op)
	}
	return c
}

func decodeChange(raw []byte) (prev []string, base string, snap bool, err error) {
	rc := &treechangeproto.RawTreeChange{}
	if err = rc.UnmarshalVT(raw); err != nil {
		return
	}
	tc := &treechangeproto.TreeChange{}
	if err = tc.UnmarshalVT(rc.Payload); err != nil {
		return
	}
	return tc.TreeHeadIds, tc.SnapshotBaseId, tc.IsSnapshot, nil
}

type fresh struct {
	label string
	rep   *treesim.Replica
	subj  *subject
	cur   *viewState
	last  *objecttree.RawChangesPayload
	fed   int
	// rolledBack: a refused batch was rolled back while the tree had >= 2 heads and nothing was added since
	rolledBack bool
}

// forge builds a correctly signed change (valid CID and signature) on the given parents,
// the way objectTree.AddContent does for the holder of key.
func forge(root *treechangeproto.RawTreeChangeWithId, key crypto.PrivKey, aclHead, base string, parents []string, data []byte, ts int64) (*treechangeproto.RawTreeChangeWithId, error) {
	parents = append([]string(nil), parents...)
	sort.Strings(parents)
	_, raw, err := objecttree.NewChangeBuilder(crypto.NewKeyStorage(), root).Build(objecttree.BuilderContent{
		TreeHeadIds: parents, AclHeadId: aclHead, SnapshotBaseId: base, Unencrypted: true, PrivKey: key, Content: data, Timestamp: ts, DataType: "t",
	})
	return raw, err
}

func runR(c RCase) (out vstat.Outcome, err error) {
	if c.N < 2 || c.N > 4 {
		return out, nil
	}
	s, err := treesim.New(outerT, treesim.Options{N: c.N, Seed: c.Seed, Holders: c.N})
	if err != nil {
		return out, fmt.Errorf("setup: %w", err)
	}
	defer s.Close()
	classes := map[string]bool{}
	rootId := s.RootId()
	rel := newRelation(map[string][]string{rootId: nil}, nil)
	raws := map[string][]byte{}
	ident := func(id string) string { return id }

	// learn reads what a replica stores and records the parent relation from the raw bytes.
	learn := func(rep *treesim.Replica) error {
		stored, _, err := rep.Stored()
		if err != nil {
			return err
		}
		for id, ch := range stored {
			if _, ok := rel.parents[id]; ok {
				continue
			}
			prev, base, snap, err := decodeChange(ch.RawChange)
			if err != nil {
				return fmt.Errorf("stored change %s cannot be decoded: %v", id, err)
			}
			rel.parents[id] = prev
			rel.base[id] = base
			rel.isSnap[id] = snap
			raws[id] = ch.RawChange
		}
		return nil
	}

	// rejectOn delivers a batch that attaches in memory but is refused by the validator: a
	// correctly signed change by an account that is not a member, on one head or on all heads
	// of the tree, its base being the tree's current root (so that the in-memory path is
	// taken), optionally together with valid changes. The call must fail and leave the
	// presented sequence, the storage (ids and order ids) and the heads as they were.
	forged := 0
	rejectOn := func(subj *subject, acl string, prev *viewState, variant, pick int, mixed []*treechangeproto.RawTreeChangeWithId, step string) (*viewState, error) {
		t := subj.tree
		t.Lock()
		heads := append([]string(nil), t.Heads()...)
		root := t.Root().Id
		path, perr := t.SnapshotPath()
		path = append([]string(nil), path...)
		t.Unlock()
		if perr != nil {
			return nil, fmt.Errorf("%s: SnapshotPath: %v", step, perr)
		}
		parents := heads
		if variant%2 == 1 {
			parents = []string{heads[pick%len(heads)]}
		}
		forged++
		x, err := forge(s.Root, accounts.Named("outsider", 1).SignKey, acl, root, parents, []byte(fmt.Sprintf("forged-%d", forged)), s.Clock()+300000+int64(forged))
		if err != nil {
			return nil, fmt.Errorf("forge: %v", err)
		}
		p := objecttree.RawChangesPayload{NewHeads: []string{x.Id}, SnapshotPath: path}
		p.RawChanges = append(p.RawChanges, mixed...)
		p.RawChanges = append(p.RawChanges, x)
		t.Lock()
		res, aerr := t.AddRawChanges(context.Background(), p)
		t.Unlock()
		what := fmt.Sprintf("%s after the refused batch of %s (a change by a non-member on %s)", subj.label, step, rel.show(parents))
		if aerr == nil {
			return nil, fmt.Errorf("%s: the batch was accepted (%s, %d added)", what, modeName(res.Mode), len(res.Added))
		}
		now, err := rel.observe(subj, what)
		if err != nil {
			return nil, err
		}
		if err := rel.orderIdsKept(what, prev.orders, now.held); err != nil {
			return nil, err
		}
		if len(now.held) != len(prev.held) {
			return nil, fmt.Errorf("%s: a refused batch changed the stored set: %d -> %d changes", what, len(prev.held), len(now.held))
		}
		if !sameSet(now.heads, prev.heads) {
			return nil, fmt.Errorf("%s: a refused batch changed the heads %s -> %s", what, rel.show(prev.heads), rel.show(now.heads))
		}
		// the presented sequence is unchanged up to a reduction of the view (front trim only)
		if len(mixed) == 0 && !frontTrimOnly(prev.shown, now.shown) {
			return nil, fmt.Errorf("%s: a refused batch changed the presented sequence\n  before: %s\n  after:  %s", what, rel.show(prev.shown), rel.show(now.shown))
		}
		if err := rel.sameRestricted(what, now.shown, "the same tree before", prev.shown); err != nil {
			return nil, err
		}
		classes["refused-batch-rolled-back"] = true
		if len(mixed) > 0 {
			classes["refused-batch-with-valid-changes"] = true
		}
		return now, nil
	}
	snapBaseOf := func(h string) string {
		if h == rootId || rel.isSnap[h] {
			return h
		}
		return rel.base[h]
	}

	// ---- phase 1: the honest history --------------------------------------------------------
	states := make([]*viewState, c.N)
	subjects := make([]*subject, c.N)
	checkSim := func(step string) error {
		for i, rep := range s.Replicas {
			if rep.Tree == nil {
				continue
			}
			if err := learn(rep); err != nil {
				return err
			}
			if subjects[i] == nil {
				subjects[i] = &subject{label: fmt.Sprintf("replica %d", i), name: ident}
			}
			subjects[i].tree = rep.Tree
			now, err := rel.observe(subjects[i], fmt.Sprintf("replica %d after %s", i, step))
			if err != nil {
				return err
			}
			if states[i] != nil {
				if err := rel.orderIdsKept(fmt.Sprintf("replica %d after %s", i, step), states[i].orders, now.held); err != nil {
					return err
				}
			}
			states[i] = now
		}
		return nil
	}
	edit := func(r int, snap bool) error {
		if len(s.Produced) >= maxChanges || s.Replicas[r].Tree == nil {
			return nil
		}
		_, err := s.Edit(r, snap, 8)
		if err != nil {
			return fmt.Errorf("local edit on replica %d failed: %v", r, err)
		}
		return nil
	}
	for i, op := range c.Hist {
		step := fmt.Sprintf("history op %d %+v", i, op)
		var err error
		switch op.K {
		case "edit":
			err = edit(op.A%c.N, op.B == 0)
		case "fork":
			a, b := op.A%c.N, op.B%c.N
			if err = edit(a, false); err == nil {
				if err = edit(b, false); err == nil && op.C == 0 {
					err = edit(a, true)
				}
			}
		case "twin":
			a, b := op.A%c.N, op.B%c.N
			if a == b || len(s.Produced) >= maxChanges {
				break
			}
			// the same account on two devices writes the same content on the same heads:
			// let the network settle first so that both replicas stand on the same heads
			if err = s.Drain(20000); err != nil {
				break
			}
			ts := s.Clock() + 100000 + int64(i)
			data := []byte(fmt.Sprintf("twin-%d", i))
			ra, e1 := s.EditAs(a, a, data, ts, false)
			rb, e2 := s.EditAs(b, a, data, ts, false)
			if e1 != nil || e2 != nil {
				err = fmt.Errorf("twin edit failed: %v / %v", e1, e2)
				break
			}
			if len(ra.Added) == 1 && len(rb.Added) == 1 && ra.Added[0].Id == rb.Added[0].Id {
				classes["twin-change-same-id"] = true
			}
		case "deliver":
			err = s.Step(op.A, treesim.Fate(op.B), 0)
		case "flush":
			for k := 0; k < op.A && len(s.InFlight) > 0 && err == nil; k++ {
				err = s.Step(0, treesim.Deliver, 0)
			}
		case "reopen":
			if rep := s.Replicas[op.A%c.N]; rep.Tree != nil {
				before := states[op.A%c.N]
				if err = rep.Reopen(); err != nil {
					err = fmt.Errorf("replica %d could not be reopened from its own storage: %v", op.A%c.N, err)
					break
				}
				classes["reopen"] = true
				if before != nil {
					subjects[op.A%c.N].tree = rep.Tree
					now, e := rel.observe(subjects[op.A%c.N], fmt.Sprintf("replica %d reopened at %s", op.A%c.N, step))
					if e != nil {
						err = e
						break
					}
					if e := rel.sameRestricted("the reopened tree", now.shown, "the tree before it was closed", before.shown); e != nil {
						err = fmt.Errorf("(b) replica %d at %s: %v", op.A%c.N, step, e)
					}
				}
			}
		case "sync":
			err = s.SyncWithPeer(op.A%c.N, op.B%c.N)
		case "rollback":
			a, b := op.A%c.N, op.B%c.N
			if a == b {
				b = (a + 1) % c.N
			}
			ra, rb := s.Replicas[a], s.Replicas[b]
			if ra.Tree == nil || rb.Tree == nil {
				break
			}
			// both replicas stand on the same heads, edit concurrently, exchange the edits
			if err = s.Drain(20000); err != nil {
				break
			}
			// one branch gets two or three changes, the other one or two: whether the head with the
			// greatest id is also the head iterated last is then up to the (random) ids
			if len(s.Produced)+7 <= maxChanges {
				na, nb := 2, 1
				if op.C&4 != 0 {
					na, nb = 1, 2
				}
				if op.C&16 != 0 {
					na++
				}
				if op.C&32 != 0 {
					nb++
				}
				for k := 0; k < na && err == nil; k++ {
					err = edit(a, false)
				}
				for k := 0; k < nb && err == nil; k++ {
					err = edit(b, false)
				}
				if err == nil {
					err = s.Drain(20000)
				}
			}
			if err == nil {
				err = checkSim(step + " (setup)")
			}
			if err != nil {
				break
			}
			prev := states[a]
			multi := len(prev.heads) >= 2
			now, e := rejectOn(subjects[a], ra.Acl.Head().Id, prev, op.C>>3, op.C>>4, nil, step)
			if e != nil {
				err = e
				break
			}
			states[a] = now
			added := false
			switch op.C % 4 {
			case 0, 1: // a device of account b that holds only one branch extends it; replica a receives the change
				if len(s.Produced) >= maxChanges {
					break
				}
				hs := append([]string(nil), now.heads...)
				sort.Strings(hs)
				h := hs[len(hs)-1]
				if op.C%4 == 1 {
					h = hs[0]
				}
				v, e := forge(s.Root, rb.Keys.SignKey, ra.Acl.Head().Id, snapBaseOf(h), []string{h}, []byte(fmt.Sprintf("ext-%d", i)), s.Clock()+200000+int64(i))
				if e != nil {
					err = e
					break
				}
				rel.parents[v.Id] = []string{h}
				rel.base[v.Id] = snapBaseOf(h)
				rel.isSnap[v.Id] = false
				raws[v.Id] = v.RawChange
				s.Produced[v.Id] = true
				ra.Tree.Lock()
				path, _ := ra.Tree.SnapshotPath()
				path = append([]string(nil), path...)
				ra.Tree.Unlock()
				nh := []string{v.Id}
				for _, x := range hs {
					if x != h {
						nh = append(nh, x)
					}
				}
				_, after, e := rel.checkedAdd(subjects[a], objecttree.RawChangesPayload{NewHeads: nh, RawChanges: []*treechangeproto.RawTreeChangeWithId{v}, SnapshotPath: path}, now, classes, step+" (extension of one head after the refused batch)")
				if e != nil {
					err = e
					break
				}
				states[a] = after
				added = len(after.held) > len(now.held)
				classes["single-head-extension-after-rollback"] = true
			case 2: // a local change right after the rollback
				before := len(s.Produced)
				err = edit(a, false)
				added = len(s.Produced) > before
				classes["local-edit-after-rollback"] = true
			default: // a remote change arrives right after the rollback
				before := len(s.Produced)
				if err = edit(b, false); err == nil {
					err = s.Drain(20000)
				}
				added = len(s.Produced) > before
			}
			if err == nil && multi && added {
				classes["addition-after-rolled-back-batch-multi-head"] = true
			}
		}
		if err != nil {
			return out, fmt.Errorf("%s: %v", step, err)
		}
		if err := checkSim(step); err != nil {
			return out, err
		}
	}
	if err := s.Drain(20000); err != nil {
		return out, err
	}
	for a := 0; a < c.N; a++ {
		for b := a + 1; b < c.N; b++ {
			if err := s.SyncWithPeer(a, b); err != nil {
				return out, err
			}
			if err := s.Drain(20000); err != nil {
				return out, err
			}
		}
	}
	if err := checkSim("drain and anti-entropy"); err != nil {
		return out, err
	}

	// ---- phase 2: harvest --------------------------------------------------------------------
	src := s.Replicas[c.Src%c.N]
	srcState := states[c.Src%c.N]
	refName := fmt.Sprintf("replica %d (the sender, which grew the set incrementally)", src.Idx)
	full := idsOf(srcState.held)
	rel.setRef(refName, full)
	for i := range s.Replicas {
		if states[i] == nil {
			continue
		}
		if err := rel.sameRestricted(fmt.Sprintf("the storage order of replica %d", i), idsOf(states[i].held), "the storage order of "+refName, full); err != nil {
			return out, fmt.Errorf("(b) replicas that received the set in different arrival orders: %v", err)
		}
		if err := rel.sameRestricted(fmt.Sprintf("the sequence presented by replica %d", i), states[i].shown, "the storage order of "+refName, full); err != nil {
			return out, fmt.Errorf("(b) %v", err)
		}
	}
	src.Tree.Lock()
	srcHeads := append([]string(nil), src.Tree.Heads()...)
	srcPath, err := src.Tree.SnapshotPath()
	src.Tree.Unlock()
	if err != nil {
		return out, fmt.Errorf("sender SnapshotPath: %v", err)
	}
	srcPath = append([]string(nil), srcPath...)
	set := full[1:] // without the root, in the sender's stored order
	if len(full) == 0 || full[0] != rootId {
		return out, fmt.Errorf("(a) the sender's storage order does not start with the root: %s", rel.show(full))
	}
	raw := func(id string) *treechangeproto.RawTreeChangeWithId {
		return &treechangeproto.RawTreeChangeWithId{Id: id, RawChange: append([]byte(nil), raws[id]...)}
	}

	// ---- phase 3: two fresh replicas are fed the same set differently ------------------------
	var obs []*fresh
	defer func() {
		for _, f := range obs {
			f.rep.Shutdown()
		}
	}()
	for k := 0; k < 2; k++ {
		rep, err := s.NewEmptyTreeReplica(k % c.N)
		if err != nil {
			return out, fmt.Errorf("fresh replica: %v", err)
		}
		f := &fresh{label: fmt.Sprintf("fresh replica %c", 'A'+k), rep: rep}
		f.subj = &subject{label: f.label, tree: rep.Tree, name: ident}
		obs = append(obs, f)
		if f.cur, err = rel.observe(f.subj, f.label+" (root only)"); err != nil {
			return out, err
		}
	}
	s.DiscardInFlight()

	feed := func(f *fresh, p objecttree.RawChangesPayload, step string) error {
		before := len(f.cur.held)
		freshIds := 0
		for _, ch := range p.RawChanges {
			if _, ok := f.cur.orders[ch.Id]; !ok {
				freshIds++
			}
		}
		_, now, err := rel.checkedAdd(f.subj, p, f.cur, classes, step)
		s.DiscardInFlight()
		if err != nil {
			return err
		}
		if len(now.held)-before < freshIds {
			classes["unattached-then-attached"] = true // the final re-delivery attaches them
		}
		if len(now.held) > before {
			if f.rolledBack {
				classes["addition-after-rolled-back-batch-multi-head"] = true
			}
			f.rolledBack = false
		}
		f.cur = now
		f.last = &p
		f.fed++
		return nil
	}
	reopen := func(f *fresh, step string) error {
		if err := f.rep.Reopen(); err != nil {
			return fmt.Errorf("%s at %s could not be reopened from its own storage: %v", f.label, step, err)
		}
		s.DiscardInFlight()
		f.subj.tree = f.rep.Tree
		what := f.label + " reopened from storage at " + step
		now, err := rel.observe(f.subj, what)
		if err != nil {
			return err
		}
		if err := rel.sameRestricted(what, now.shown, f.label+" before it was closed", f.cur.shown); err != nil {
			return fmt.Errorf("(b) %v", err)
		}
		if err := rel.orderIdsKept(what, f.cur.orders, now.held); err != nil {
			return err
		}
		f.cur = now
		classes["reopen"] = true
		return nil
	}
	copyDB := func(f *fresh, step string, continueOnCopy bool) error {
		dup, err := f.rep.Duplicate()
		s.DiscardInFlight()
		if err != nil {
			return fmt.Errorf("%s at %s: %v", f.label, step, err)
		}
		what := "the tree built on a copy of the database of " + f.label + " at " + step
		ds := &subject{label: what, tree: dup.Tree, name: ident}
		now, err := rel.observe(ds, what)
		if err == nil {
			if e := rel.sameRestricted(what, now.shown, f.label, f.cur.shown); e != nil {
				err = fmt.Errorf("(b) %v", e)
			}
		}
		if err == nil {
			err = rel.orderIdsKept(what, f.cur.orders, now.held)
		}
		if err == nil && len(now.held) != len(f.cur.held) {
			err = fmt.Errorf("%s holds %d changes, the original %d", what, len(now.held), len(f.cur.held))
		}
		classes["copied-database"] = true
		if err != nil || !continueOnCopy {
			dup.Shutdown()
			return err
		}
		f.rep.Shutdown()
		f.rep, f.subj.tree, f.cur = dup, dup.Tree, now
		classes["continued-on-copy"] = true
		return nil
	}
	history := func(f *fresh, a, b int, step string) error {
		held := idsOf(f.cur.held)
		var heads []string
		include := b%2 == 0
		switch a % 4 {
		case 0: // the whole history
		case 1, 2:
			heads = []string{held[(a/4)%len(held)]}
		default:
			heads = []string{held[(a/4)%len(held)], held[(a/4+1+b)%len(held)]}
			if heads[0] == heads[1] {
				heads = heads[:1]
			}
		}
		limit := heads
		if len(heads) == 1 && !include {
			if len(rel.parents[heads[0]]) == 0 {
				include = true // there is nothing before the root
			} else {
				limit = rel.parents[heads[0]]
			}
		}
		ht, err := objecttree.BuildHistoryTree(objecttree.HistoryTreeParams{Storage: f.rep.Tree.Storage(), AclList: f.rep.Acl, Heads: heads, IncludeBeforeId: include})
		what := fmt.Sprintf("the history tree of %s at %s (heads %s, include=%v)", f.label, step, rel.show(heads), include)
		if err != nil {
			return fmt.Errorf("%s could not be built: %v", what, err)
		}
		seq, err := presented(ht)
		if err != nil {
			return err
		}
		classes["history-tree"] = true
		if len(heads) > 0 {
			classes["history-tree-at-heads"] = true
		}
		if err := rel.linearExtension(what, seq); err != nil {
			return err
		}
		if err := rel.restrictionOfRef(what, seq); err != nil {
			return err
		}
		return rel.completeView(what, seq, held, limit)
	}

	for i, op := range c.Feed {
		f := obs[op.O%2]
		step := fmt.Sprintf("feed op %d (%s)", i, op.K)
		var err error
		switch op.K {
		case "subset": // a head update carrying some changes, in the order drawn (duplicates possible)
			if len(set) == 0 {
				break
			}
			p := objecttree.RawChangesPayload{NewHeads: srcHeads, SnapshotPath: srcPath}
			cnt := 1 + op.B%7
			for j := 0; j < cnt; j++ {
				p.RawChanges = append(p.RawChanges, raw(set[(op.A*7919+j*(2*op.C+1)*31)%len(set)]))
			}
			err = feed(f, p, step)
		case "window": // a stretch of the sender's stored order
			if len(set) == 0 {
				break
			}
			p := objecttree.RawChangesPayload{NewHeads: srcHeads, SnapshotPath: srcPath}
			start := op.A % len(set)
			for j := start; j < len(set) && j < start+1+op.B%12; j++ {
				p.RawChanges = append(p.RawChanges, raw(set[j]))
			}
			err = feed(f, p, step)
		case "loader": // the sender's real full-sync loader for this receiver, at a random size limit, possibly cut short
			f.rep.Tree.Lock()
			theirHeads := append([]string(nil), f.rep.Tree.Heads()...)
			theirPath, perr := f.rep.Tree.SnapshotPath()
			f.rep.Tree.Unlock()
			if perr != nil {
				err = fmt.Errorf("%s SnapshotPath: %v", f.label, perr)
				break
			}
			theirPath = append([]string(nil), theirPath...)
			src.Tree.Lock()
			it, lerr := src.Tree.ChangesAfterCommonSnapshotLoader(theirPath, theirHeads)
			var batches []objecttree.IteratorBatch
			if lerr == nil {
				limit := 150 + (op.A%10)*250
				for b := 0; b <= op.C%5; b++ {
					batch, nerr := it.NextBatch(limit)
					if nerr != nil || len(batch.Batch) == 0 {
						break
					}
					batches = append(batches, batch)
				}
			}
			src.Tree.Unlock()
			if lerr != nil {
				vstat.Count("loader_errors", 1)
				break
			}
			for b, batch := range batches {
				classes["loader-batches"] = true
				if b > 0 {
					classes["multi-batch-loader"] = true
				}
				p := objecttree.RawChangesPayload{NewHeads: batch.Heads, RawChanges: batch.Batch, SnapshotPath: batch.SnapshotPath}
				if err = feed(f, p, fmt.Sprintf("%s batch %d", step, b)); err != nil {
					break
				}
			}
		case "dup":
			if f.last != nil {
				p := *f.last
				p.RawChanges = nil
				for _, ch := range f.last.RawChanges {
					p.RawChanges = append(p.RawChanges, raw(ch.Id))
				}
				classes["payload-delivered-twice"] = true
				err = feed(f, p, step)
			}
		case "reopen":
			err = reopen(f, step)
		case "copy":
			err = copyDB(f, step, op.C%2 == 1)
		case "history":
			err = history(f, op.A, op.B, step)
		case "reject":
			var mixed []*treechangeproto.RawTreeChangeWithId
			if op.B%3 == 0 { // together with up to two valid changes the replica does not hold yet
				for _, id := range set {
					if _, ok := f.cur.orders[id]; !ok && len(mixed) < 2 {
						mixed = append(mixed, raw(id))
					}
				}
			}
			now, e := rejectOn(f.subj, f.rep.Acl.Head().Id, f.cur, op.C, op.A, mixed, step)
			if e != nil {
				err = e
				break
			}
			if len(now.heads) >= 2 {
				f.rolledBack = true
			}
			f.cur = now
		}
		if err != nil {
			return out, err
		}
	}

	// ---- phase 4: retries until everything is attached, then the verdict on the whole set ------
	win := c.Win
	if win < 1 {
		win = 1
	}
	for k, f := range obs {
		for pass := 0; pass < 2 && len(f.cur.held) < len(full); pass++ {
			for start := 0; start < len(set); start += win {
				p := objecttree.RawChangesPayload{NewHeads: srcHeads, SnapshotPath: srcPath}
				for j := start; j < len(set) && j < start+win; j++ {
					p.RawChanges = append(p.RawChanges, raw(set[j]))
				}
				if err := feed(f, p, fmt.Sprintf("final in-order re-delivery pass %d at %d", pass, start)); err != nil {
					return out, err
				}
			}
		}
		got := idsOf(f.cur.held)
		if len(got) != len(full) {
			return out, fmt.Errorf("%s stores %d of the %d changes after the whole set was re-delivered in the sender's stored order", f.label, len(got), len(full))
		}
		for i := range got {
			if got[i] != full[i] {
				return out, fmt.Errorf("(b) two replicas holding the same set store it in different orders\n  %s: %s\n  %s: %s", f.label, rel.show(got), refName, rel.show(full))
			}
		}
		if !sameSet(f.cur.heads, srcHeads) {
			return out, fmt.Errorf("%s has heads %s, the sender %s", f.label, rel.show(f.cur.heads), rel.show(srcHeads))
		}
		// every fresh replica ends with: the whole set once more, reopen, a copy, history views
		if len(set) > 0 {
			p := objecttree.RawChangesPayload{NewHeads: srcHeads, SnapshotPath: srcPath}
			for _, id := range set {
				p.RawChanges = append(p.RawChanges, raw(id))
			}
			if err := feed(f, p, "re-delivery of the whole set"); err != nil {
				return out, err
			}
		}
		if err := reopen(f, "the end"); err != nil {
			return out, err
		}
		if k == 0 {
			if err := copyDB(f, "the end", false); err != nil {
				return out, err
			}
			if err := history(f, 0, 0, "the end"); err != nil {
				return out, err
			}
			if err := history(f, 1+4*(int(c.Seed%97)), 0, "the end"); err != nil {
				return out, err
			}
		}
		// IterateFrom at a few points
		for j := 0; j < len(f.cur.shown); j += 1 + len(f.cur.shown)/4 {
			from := f.cur.shown[j]
			fs, err := presentedFrom(f.rep.Tree, from)
			if err != nil {
				return out, err
			}
			what := fmt.Sprintf("IterateFrom(%s) of %s", rel.short(from), f.label)
			if len(fs) == 0 || fs[0] != from {
				return out, fmt.Errorf("%s does not start there: %s", what, rel.show(fs))
			}
			if err := rel.linearExtension(what, fs); err != nil {
				return out, err
			}
			if err := rel.restrictionOfRef(what, fs); err != nil {
				return out, err
			}
		}
	}

	// ---- classification ----------------------------------------------------------------------
	children := map[string]int{}
	fork, merge := false, false
	for _, id := range full {
		if len(rel.parents[id]) >= 2 {
			merge = true
		}
		for _, p := range rel.parents[id] {
			children[p]++
			if children[p] >= 2 {
				fork = true
			}
		}
	}
	if merge {
		classes["merge-change"] = true
	}
	if fork {
		classes["fork"] = true
	}
	// snapshot inside a fork: a snapshot that is concurrent with some other change
	anc := map[string]map[string]bool{}
	for _, id := range full { // stored order is topological
		a := map[string]bool{}
		for _, p := range rel.parents[id] {
			a[p] = true
			for x := range anc[p] {
				a[x] = true
			}
		}
		anc[id] = a
	}
	snaps := 0
	for _, id := range set {
		if !rel.isSnap[id] {
			continue
		}
		snaps++
		for _, other := range set {
			if other != id && !anc[id][other] && !anc[other][id] {
				classes["snapshot-inside-fork"] = true
				break
			}
		}
	}
	if snaps > 0 {
		classes["snapshot"] = true
	}
	fedBoth := obs[0].fed > 0 && obs[1].fed > 0
	out.Sig = vstat.Hash(c.Seed, len(full), vstat.HashJSON(c.Feed), vstat.HashJSON(c.Hist))
	out.NonTrivial = fork && fedBoth
	for k := range classes {
		out.Classes = append(out.Classes, k)
	}
	sort.Strings(out.Classes)
	vstat.Count("changes_in_set", int64(len(full)))
	vstat.Count("payloads_fed", int64(obs[0].fed+obs[1].fed))
	return out, nil
}

func TestRandom(t *testing.T) {
	outerT = t
	vstat.Check(t, prop, genCase, runR)
}
