package c06

import (
	"context"
	"fmt"
	"testing"

	"github.com/anyproto/any-sync/commonspace/object/tree/objecttree"
	"github.com/anyproto/any-sync/commonspace/object/tree/treechangeproto"

	"verif/harness/internal/accounts"
	"verif/harness/internal/treesim"
)

// nothingAfterRefusedBatch is the minimal history: a replica holds R e1 e2 S(snapshot) n with
// its tree rooted at R (unreduced: it was rebuilt from storage), a batch with a change by a
// non-member is refused and rolled back, then the already held e1 is delivered again.
func nothingAfterRefusedBatch(t *testing.T) (before, after []string, mode objecttree.Mode, err error) {
	s, err := treesim.New(t, treesim.Options{N: 2, Seed: 7, Holders: 2})
	if err != nil {
		return nil, nil, 0, err
	}
	defer s.Close()
	var ids []string
	for k := 0; k < 4; k++ { // e1, e2, S (snapshot), n on replica 0
		res, err := s.Edit(0, k == 2, 8)
		if err != nil {
			return nil, nil, 0, err
		}
		ids = append(ids, res.Added[0].Id)
	}
	stored, _, err := s.Replicas[0].Stored()
	if err != nil {
		return nil, nil, 0, err
	}
	raw := func(id string) *treechangeproto.RawTreeChangeWithId {
		return &treechangeproto.RawTreeChangeWithId{Id: id, RawChange: append([]byte(nil), stored[id].RawChange...)}
	}
	f, err := s.NewEmptyTreeReplica(1)
	if err != nil {
		return nil, nil, 0, err
	}
	defer f.Shutdown()
	root := s.RootId()
	add := func(p objecttree.RawChangesPayload) (objecttree.AddResult, error) {
		f.Tree.Lock()
		defer f.Tree.Unlock()
		return f.Tree.AddRawChanges(context.Background(), p)
	}
	// e1 e2 S: reduced to [S]
	if _, err = add(objecttree.RawChangesPayload{NewHeads: []string{ids[2]}, SnapshotPath: []string{ids[2], root}, RawChanges: []*treechangeproto.RawTreeChangeWithId{raw(ids[0]), raw(ids[1]), raw(ids[2])}}); err != nil {
		return nil, nil, 0, err
	}
	// e1 again together with the new n, from a sender rooted at R: rebuilt from storage at R, not reduced
	if _, err = add(objecttree.RawChangesPayload{NewHeads: []string{ids[3]}, SnapshotPath: []string{root}, RawChanges: []*treechangeproto.RawTreeChangeWithId{raw(ids[0]), raw(ids[3])}}); err != nil {
		return nil, nil, 0, err
	}
	base, _ := presented(f.Tree)
	// the refused batch: a signed change by a non-member on the head, base = the tree's root
	x, err := forge(s.Root, accounts.Named("outsider", 1).SignKey, f.Acl.Head().Id, f.Tree.Root().Id, []string{ids[3]}, []byte("forged"), s.Clock()+1)
	if err != nil {
		return nil, nil, 0, err
	}
	if _, err = add(objecttree.RawChangesPayload{NewHeads: []string{x.Id}, SnapshotPath: []string{root}, RawChanges: []*treechangeproto.RawTreeChangeWithId{x}}); err == nil {
		return nil, nil, 0, fmt.Errorf("the batch with a change by a non-member was accepted")
	}
	before, _ = presented(f.Tree)
	if len(before) != len(base) {
		return nil, nil, 0, fmt.Errorf("the refused batch changed the presented sequence: %v -> %v", base, before)
	}
	res, err := add(objecttree.RawChangesPayload{NewHeads: []string{ids[3]}, SnapshotPath: []string{root}, RawChanges: []*treechangeproto.RawTreeChangeWithId{raw(ids[1])}})
	if err != nil {
		return nil, nil, 0, err
	}
	after, _ = presented(f.Tree)
	return before, after, res.Mode, nil
}

// TestRegNothingAfterRefusedBatchReduces: the rollback of a refused batch leaves its changes
// in Tree.possibleRoots, which reduceTree uses as a trigger only; the next call - here one that
// adds nothing - therefore reduces the tree. That is allowed (a reduced view is the full order
// restricted to what it contains); what must hold is the corrected relation for Nothing:
// nothing new, no reordering, only a front part may be gone.
func TestRegNothingAfterRefusedBatchReduces(t *testing.T) {
	outerT = t
	before, after, mode, err := nothingAfterRefusedBatch(t)
	if err != nil {
		t.Fatalf("scenario: %v", err)
	}
	if mode != objecttree.Nothing {
		t.Fatalf("re-delivery of a held change reported %s", modeName(mode))
	}
	if !frontTrimOnly(before, after) {
		t.Fatalf("C06 (d): Nothing was reported but the presented sequence is not the previous one restricted to the view: %v -> %v", before, after)
	}
}
