package c06

import (
	"context"
	"fmt"
	"os"
	"sort"
	"strconv"
	"strings"
	"sync/atomic"
	"testing"

	anystore "github.com/anyproto/any-store"

	"github.com/anyproto/any-sync/commonspace/headsync/headstorage"
	"github.com/anyproto/any-sync/commonspace/object/acl/list"
	"github.com/anyproto/any-sync/commonspace/object/tree/objecttree"
	"github.com/anyproto/any-sync/commonspace/object/tree/treechangeproto"

	"github.com/anyproto/any-sync/util/crypto"

	"verif/harness/internal/accounts"
	"verif/harness/internal/dbutil"
	"verif/harness/internal/vstat"
)

// XCase is one exhaustive case: a world (DAG, id order, snapshot placement), an arrival
// order, a partition of it into consecutive batches, and the points where the tree
// object is dropped and rebuilt from its storage.
type XCase struct {
	W      World `json:"w"`
	Perm   []int `json:"perm"`   // arrival order of the nodes 1..N
	Cuts   int   `json:"cuts"`   // bit k: a batch ends after arrival position k
	Reopen int   `json:"reopen"` // bit (k mod 12): rebuild the tree object from storage after the k-th AddRawChanges call
}

// ---- scratch database shared by all mock trees of a shard -------------------------------

type mockEnv struct {
	scratch *dbutil.Scratch
	db      anystore.DB
	heads   headstorage.HeadStorage
	dbNo    int
	inDB    int
	trees   int
	acl     list.AclList
	creator *objecttree.MockChangeCreator
	// mockBuilder is the non-verifying StorageChangeBuilder MockChangeCreator installs
	mockBuilder func(keys crypto.KeyStorage, rootChange *treechangeproto.RawTreeChangeWithId) objecttree.ChangeBuilder
	identity    []byte // a real marshalled public key: lets the history-tree builder (real key storage) parse mock changes
}

var menv *mockEnv

const treesPerDB = 6000

func getEnv() (*mockEnv, error) {
	if menv == nil {
		sc, err := dbutil.New("c06-mock-")
		if err != nil {
			return nil, err
		}
		acl, err := list.NewInMemoryDerivedAcl("spaceId", accounts.Get(0))
		if err != nil {
			sc.Remove()
			return nil, err
		}
		e := &mockEnv{scratch: sc, acl: acl}
		e.creator = objecttree.NewMockChangeCreator(func() anystore.DB { return e.db })
		menv = e
	}
	e := menv
	if e.db == nil || e.inDB >= treesPerDB {
		if e.db != nil {
			e.db.Close()
			os.RemoveAll(e.scratch.Path(fmt.Sprintf("mock-%d.db", e.dbNo)))
		}
		e.dbNo++
		e.inDB = 0
		db, err := e.scratch.Open(fmt.Sprintf("mock-%d.db", e.dbNo))
		if err != nil {
			return nil, err
		}
		e.db = db
		// the index space storages create on the changes collection (spacestorage.Create / New)
		coll, err := db.Collection(context.Background(), objecttree.CollName)
		if err != nil {
			return nil, err
		}
		if err := coll.EnsureIndex(context.Background(), anystore.IndexInfo{Fields: []string{objecttree.TreeKey, objecttree.OrderKey}, Unique: true}); err != nil {
			return nil, err
		}
		hs, err := headstorage.New(context.Background(), db)
		if err != nil {
			return nil, err
		}
		e.heads = hs
		if e.mockBuilder == nil {
			// MockChangeCreator.CreateNewTreeStorage installs the non-verifying storage change
			// builder as a package-level default; capture it and put the real one back.
			saved := objecttree.StorageChangeBuilder
			e.creator.CreateNewTreeStorage(outerT, "t0000000", e.acl.Head().Id, false)
			e.mockBuilder = objecttree.StorageChangeBuilder
			objecttree.StorageChangeBuilder = saved
			if e.identity, err = accounts.Get(0).SignKey.GetPublic().Marshall(); err != nil {
				return nil, err
			}
		}
	}
	return e, nil
}

// mockRaw is MockChangeCreator.CreateRaw plus an identity (no signature, id chosen by the harness).
func mockRaw(id, aclId, base string, snapshot bool, identity []byte, prev ...string) *treechangeproto.RawTreeChangeWithId {
	tc := &treechangeproto.TreeChange{TreeHeadIds: prev, AclHeadId: aclId, SnapshotBaseId: base, IsSnapshot: snapshot, DataType: "mockDataType", Identity: identity}
	payload, _ := tc.MarshalVT()
	raw, _ := (&treechangeproto.RawTreeChange{Payload: payload}).MarshalVT()
	return &treechangeproto.RawTreeChangeWithId{RawChange: raw, Id: id}
}

func mockRoot(id, aclId string, identity []byte) *treechangeproto.RawTreeChangeWithId {
	payload, _ := (&treechangeproto.RootChange{AclHeadId: aclId, Identity: identity}).MarshalVT()
	raw, _ := (&treechangeproto.RawTreeChange{Payload: payload}).MarshalVT()
	return &treechangeproto.RawTreeChangeWithId{RawChange: raw, Id: id}
}

func closeEnv() {
	if menv != nil {
		if menv.db != nil {
			menv.db.Close()
		}
		menv.scratch.Remove()
		menv = nil
	}
}

// ---- a mock tree -----------------------------------------------------------------------

type mockTree struct {
	e     *mockEnv
	w     World
	id    string // tree id = root change id = prefix of all change ids of this tree
	st    objecttree.Storage
	tree  objecttree.ObjectTree
	raw   []*treechangeproto.RawTreeChangeWithId // by node (raw[0] = nil)
	aclId string
}

// canonical change names, independent of the tree the world is materialised in:
// "R" for the root, one letter per non-root change; the letter IS the id order.
func (w World) name(i int) string {
	if i == 0 {
		return "R"
	}
	return string(rune('a' + w.Rank[i-1]))
}

func (w World) names(nodes []int) []string {
	out := make([]string, len(nodes))
	for i, n := range nodes {
		out[i] = w.name(n)
	}
	return out
}

func (w World) parentsByName() map[string][]string {
	m := map[string][]string{"R": nil}
	for i := 1; i <= w.N; i++ {
		m[w.name(i)] = w.names(w.parents(i))
	}
	return m
}

func (m *mockTree) cid(name string) string {
	if name == "R" {
		return m.id
	}
	return m.id + "." + name
}

func (m *mockTree) nameOf(id string) string {
	if id == m.id {
		return "R"
	}
	return strings.TrimPrefix(id, m.id+".")
}

func (m *mockTree) toNames(ids []string) []string {
	out := make([]string, len(ids))
	for i, id := range ids {
		out[i] = m.nameOf(id)
	}
	return out
}

func (m *mockTree) toIds(names []string) []string {
	out := make([]string, len(names))
	for i, n := range names {
		out[i] = m.cid(n)
	}
	return out
}

func newMockTree(w World) (*mockTree, error) {
	e, err := getEnv()
	if err != nil {
		return nil, err
	}
	e.trees++
	e.inDB++
	m := &mockTree{e: e, w: w, id: fmt.Sprintf("t%07d", e.trees), aclId: e.acl.Head().Id}
	saved := objecttree.StorageChangeBuilder
	objecttree.StorageChangeBuilder = e.mockBuilder
	m.st, err = objecttree.CreateStorage(context.Background(), mockRoot(m.id, m.aclId, e.identity), e.heads, e.db)
	objecttree.StorageChangeBuilder = saved
	if err != nil {
		return nil, fmt.Errorf("CreateStorage: %w", err)
	}
	m.st.(interface{ SetAddSeq(*atomic.Uint64) }).SetAddSeq(&atomic.Uint64{})
	m.tree, err = objecttree.BuildTestableTree(m.st, e.acl)
	if err != nil {
		return nil, fmt.Errorf("BuildTestableTree on a root-only storage: %w", err)
	}
	m.raw = make([]*treechangeproto.RawTreeChangeWithId, w.N+1)
	for i := 1; i <= w.N; i++ {
		prev := m.toIds(w.names(w.parents(i)))
		m.raw[i] = mockRaw(m.cid(w.name(i)), m.aclId, m.cid(w.name(w.base(i))), w.isSnap(i), e.identity, prev...)
	}
	return m, nil
}

// reopen drops the tree object and builds a new one from the same storage.
func (m *mockTree) reopen() error {
	st, err := objecttree.NewStorage(context.Background(), m.id, m.e.heads, m.e.db)
	if err != nil {
		return fmt.Errorf("NewStorage: %w", err)
	}
	st.(interface{ SetAddSeq(*atomic.Uint64) }).SetAddSeq(&atomic.Uint64{})
	t, err := objecttree.BuildTestableTree(st, m.e.acl)
	if err != nil {
		return fmt.Errorf("BuildTestableTree: %w", err)
	}
	m.st, m.tree = st, t
	return nil
}

func (m *mockTree) payload(nodes []int, heads, path []string) objecttree.RawChangesPayload {
	p := objecttree.RawChangesPayload{NewHeads: m.toIds(heads), SnapshotPath: m.toIds(path)}
	for _, n := range nodes {
		r := m.raw[n]
		p.RawChanges = append(p.RawChanges, &treechangeproto.RawTreeChangeWithId{RawChange: r.RawChange, Id: r.Id})
	}
	return p
}

func (m *mockTree) shown() ([]string, error) {
	s, err := presented(m.tree)
	return m.toNames(s), err
}

func (m *mockTree) stored() ([]storedChange, error) {
	sc, err := scan(m.st)
	for i := range sc {
		sc[i].Id = m.nameOf(sc[i].Id)
	}
	return sc, err
}

// ---- reference: a replica that received the whole set at once ---------------------------

type refInfo struct {
	order []string // storage order of the whole set (names)
	heads []string // the sender's heads
	path  []string // the sender's snapshot path
}

var refCache = map[uint64]*refInfo{}

func reference(w World, rel *relation) (*refInfo, error) {
	key := vstat.HashJSON(w)
	if r, ok := refCache[key]; ok {
		return r, nil
	}
	m, err := newMockTree(w)
	if err != nil {
		return nil, err
	}
	all := make([]int, w.N)
	for i := range all {
		all[i] = i + 1
	}
	const view = "the replica that received the whole set in one batch"
	subj := &subject{label: view, tree: m.tree, name: m.nameOf}
	before, err := rel.observe(subj, view+" (root only)")
	if err != nil {
		return nil, err
	}
	_, now, err := rel.checkedAdd(subj, m.payload(all, w.names(w.heads()), []string{"R"}), before, map[string]bool{}, "the only batch")
	if err != nil {
		return nil, err
	}
	if len(now.held) != w.N+1 {
		return nil, fmt.Errorf("%s stores %d of %d changes (%s)", view, len(now.held), w.N+1, rel.show(idsOf(now.held)))
	}
	m.tree.Lock()
	path, err := m.tree.SnapshotPath()
	m.tree.Unlock()
	if err != nil {
		return nil, fmt.Errorf("%s: SnapshotPath: %v", view, err)
	}
	r := &refInfo{order: idsOf(now.held), heads: now.heads, path: m.toNames(path)}
	if len(refCache) > 20000 {
		refCache = map[uint64]*refInfo{}
	}
	refCache[key] = r
	return r, nil
}

// ---- the run -----------------------------------------------------------------------------

func (c XCase) batches() [][]int {
	var out [][]int
	var cur []int
	for k, n := range c.Perm {
		cur = append(cur, n)
		if k == len(c.Perm)-1 || c.Cuts&(1<<uint(k)) != 0 {
			out = append(out, cur)
			cur = nil
		}
	}
	return out
}

func validWorld(w World) error {
	if w.N < 1 || w.N > 8 || len(w.Parents) != w.N || len(w.Rank) != w.N || len(w.Snap) != w.N || len(w.Base) != w.N {
		return fmt.Errorf("malformed world")
	}
	seen := map[int]bool{}
	for _, r := range w.Rank {
		if r < 0 || r >= w.N || seen[r] {
			return fmt.Errorf("rank is not a permutation")
		}
		seen[r] = true
	}
	anc := ancestors(w.N, w.Parents)
	for i := 1; i <= w.N; i++ {
		if len(w.parents(i)) == 0 {
			return fmt.Errorf("node %d has no parent", i)
		}
		var mask uint
		for _, p := range w.parents(i) {
			if p < 0 || p >= i {
				return fmt.Errorf("node %d: parent %d is not earlier", i, p)
			}
			mask |= 1 << uint(p)
		}
		for _, p := range w.parents(i) {
			if anc[p]&mask != 0 {
				return fmt.Errorf("node %d: parents are not an antichain", i)
			}
		}
		ok := false
		for _, b := range w.commonPath(w.parents(i)) {
			if b == w.base(i) {
				ok = true
			}
		}
		if !ok {
			return fmt.Errorf("node %d: base %d is not on the common snapshot path of its parents (dishonest placement)", i, w.base(i))
		}
	}
	return nil
}

func runX(c XCase) (out vstat.Outcome, err error) {
	w := c.W
	if err := validWorld(w); err != nil {
		return out, nil // outside the domain (hand-edited replay); nothing to decide
	}
	if len(c.Perm) != w.N {
		return out, nil
	}
	rel := newRelation(w.parentsByName(), func(s string) string { return s })
	for i := 1; i <= w.N; i++ {
		rel.base[w.name(i)] = w.name(w.base(i))
		rel.isSnap[w.name(i)] = w.isSnap(i)
	}
	ref, err := reference(w, rel)
	if err != nil {
		return out, err
	}
	const refName = "the replica that received the whole set in one batch"
	rel.setRef(refName, ref.order)

	classes := map[string]bool{}
	m, err := newMockTree(w)
	if err != nil {
		return out, err
	}
	const view = "the incrementally grown tree"
	subj := &subject{label: view, tree: m.tree, name: m.nameOf}
	cur, err := rel.observe(subj, view+" (root only)")
	if err != nil {
		return out, err
	}
	calls := 0
	reopened := false

	deliver := func(step string, nodes []int) error {
		_, now, err := rel.checkedAdd(subj, m.payload(nodes, ref.heads, ref.path), cur, classes, step)
		calls++
		if err != nil {
			return err
		}
		cur = now
		if c.Reopen&(1<<uint((calls-1)%12)) != 0 {
			if err := m.reopen(); err != nil {
				return fmt.Errorf("%s after %s: the tree could not be rebuilt from its own storage: %v", view, step, err)
			}
			subj.tree = m.tree
			reopened = true
			classes["reopen-midway"] = true
			rw := "the tree reopened from storage after " + step
			re, err := rel.observe(subj, rw)
			if err != nil {
				return err
			}
			if err := rel.sameRestricted(rw, re.shown, view+" before it was closed", cur.shown); err != nil {
				return fmt.Errorf("(b) %v", err)
			}
			if err := rel.orderIdsKept(rw, cur.orders, re.held); err != nil {
				return err
			}
			cur = re
		}
		return nil
	}

	bs := c.batches()
	pending := make([]bool, len(bs))
	for i := range pending {
		pending[i] = true
	}
	for pass := 0; ; pass++ {
		if pass > w.N+1 {
			return out, fmt.Errorf("%s: after %d passes of re-delivery some changes are still not stored (stored %v)", view, pass, rel.show(idsOf(cur.held)))
		}
		for i, b := range bs {
			if !pending[i] {
				continue
			}
			if err := deliver(fmt.Sprintf("pass %d batch %d", pass, i), b); err != nil {
				return out, err
			}
		}
		left := false
		for i, b := range bs {
			pending[i] = false
			for _, n := range b {
				if _, ok := cur.orders[w.name(n)]; !ok {
					pending[i] = true
					left = true
				}
			}
		}
		if !left {
			break
		}
		classes["unattached-then-attached"] = true
	}

	// ---- everything is held: same set as the reference => same stored order ----
	got := idsOf(cur.held)
	if len(got) != len(ref.order) {
		return out, fmt.Errorf("%s stores %d changes, the reference %d", view, len(got), len(ref.order))
	}
	for i := range got {
		if got[i] != ref.order[i] {
			return out, fmt.Errorf("(b) two replicas holding the same set store it in different orders\n  %s (arrival %v): %s\n  %s: %s", view, c.describeArrival(), rel.show(got), refName, rel.show(ref.order))
		}
	}
	if !sameSet(cur.heads, ref.heads) {
		return out, fmt.Errorf("%s has heads %v, %s has %v", view, cur.heads, refName, ref.heads)
	}

	// ---- (e) the whole set again, in one payload ----
	h := vstat.HashJSON(c)
	if w.N <= 4 || h%4 == 0 {
		all := make([]int, w.N)
		for i := range all {
			all[i] = i + 1
		}
		if err := deliver("re-delivery of the whole set", all); err != nil {
			return out, err
		}
	}

	// ---- reopened from storage ----
	incr := cur
	if err := m.reopen(); err != nil {
		return out, fmt.Errorf("%s could not be rebuilt from its own storage: %v", view, err)
	}
	subj.tree = m.tree
	const rw = "the tree reopened from storage at the end"
	re, err := rel.observe(subj, rw)
	if err != nil {
		return out, err
	}
	if err := rel.sameRestricted(rw, re.shown, view, incr.shown); err != nil {
		return out, fmt.Errorf("(b) %v", err)
	}
	if err := rel.orderIdsKept(rw, incr.orders, re.held); err != nil {
		return out, err
	}
	// IterateFrom at every presented change
	for _, from := range re.shown {
		fs, err := presentedFrom(m.tree, m.cid(from))
		if err != nil {
			return out, err
		}
		fs = m.toNames(fs)
		what := "IterateFrom(" + from + ") of the reopened tree"
		if len(fs) == 0 || fs[0] != from {
			return out, fmt.Errorf("%s does not start at %s: %s", what, from, rel.show(fs))
		}
		if err := rel.linearExtension(what, fs); err != nil {
			return out, err
		}
		if err := rel.restrictionOfRef(what, fs); err != nil {
			return out, err
		}
	}

	// ---- history trees: the whole tree, and up to one or two chosen changes ----
	hist := func(what string, heads []string, include bool, limit []string) error {
		ht, err := objecttree.BuildNonVerifiableHistoryTree(objecttree.HistoryTreeParams{Storage: m.st, AclList: m.e.acl, Heads: m.toIds(heads), IncludeBeforeId: include})
		if err != nil {
			return fmt.Errorf("%s could not be built: %v", what, err)
		}
		hs, err := presented(ht)
		if err != nil {
			return err
		}
		seq := m.toNames(hs)
		classes["history-tree"] = true
		if err := rel.linearExtension(what, seq); err != nil {
			return err
		}
		if err := rel.restrictionOfRef(what, seq); err != nil {
			return err
		}
		return rel.completeView(what, seq, idsOf(re.held), limit)
	}
	if err := hist("the full history tree", nil, false, nil); err != nil {
		return out, err
	}
	pick := int(h % uint64(w.N))
	for k := 0; k < 2 && k < w.N; k++ {
		n := 1 + (pick+k*2)%w.N
		if err := hist("the history tree up to and including "+w.name(n), []string{w.name(n)}, true, []string{w.name(n)}); err != nil {
			return out, err
		}
		if err := hist("the history tree before "+w.name(n), []string{w.name(n)}, false, w.names(w.parents(n))); err != nil {
			return out, err
		}
	}
	if hs := w.heads(); len(hs) > 1 {
		if err := hist("the history tree at all heads", w.names(hs), true, w.names(hs)); err != nil {
			return out, err
		}
	}

	// ---- classification ----
	if w.hasMerge() {
		classes["merge-change"] = true
	}
	if w.snapshots() > 0 {
		classes["snapshot"] = true
	}
	if w.snapshotInsideFork() {
		classes["snapshot-inside-fork"] = true
	}
	if w.earlierBase() {
		classes["base-earlier-than-latest-common-snapshot"] = true
	}
	if reopened {
		classes["reopen"] = true
	}
	classes[fmt.Sprintf("n=%d", w.N)] = true
	out.Sig = h
	// the set is fed in two arrival orders (the reference's single batch and this one) and
	// compared with the tree reopened from storage; non-trivial needs a fork with >=2 siblings
	out.NonTrivial = w.hasFork()
	for k := range classes {
		out.Classes = append(out.Classes, k)
	}
	sort.Strings(out.Classes)
	vstat.Count("addrawchanges_calls", int64(calls))
	return out, nil
}

func keys(m map[string]string) []string {
	var out []string
	for k := range m {
		out = append(out, k)
	}
	sort.Strings(out)
	return out
}

func (c XCase) describeArrival() string {
	var parts []string
	for _, b := range c.batches() {
		parts = append(parts, strings.Join(c.W.names(b), ""))
	}
	return strings.Join(parts, "|")
}

// ---- enumeration -------------------------------------------------------------------------

func envInt(name string, def int) int {
	if v, err := strconv.Atoi(os.Getenv(name)); err == nil {
		return v
	}
	return def
}

// enumerate yields, ordered by size:
//
//	n <= full:   every (shape, sibling id order, honest snapshot placement, arrival permutation, partition)
//	n <= latest: every placement whose bases are the latest common snapshot x every arrival (thorough: n = 4)
//	n <= triple: every (shape, sibling id order, arrival permutation, partition), each with one
//	             honest snapshot placement, rotating through all placements of the shape along
//	             the arrivals (so every placement meets many arrivals)
//	n == 5 in quick: a seed-dependent sample of the triples
//
// Shapes are taken up to isomorphism, id orders up to the relative order of siblings and up
// to the automorphisms of the shape. Cases are dealt to shards by world, so that a shard
// builds every reference once. Knobs for a slow machine: C06_MAXN, C06_TRIPLE, C06_SAMPLE.
func enumerate(yield func(XCase) bool) {
	shard, shards := envInt("VERIF_SHARD", 0), envInt("VERIF_SHARDS", 1)
	if shards < 1 {
		shards = 1
	}
	seed := envInt("VERIF_SEED", 1)
	full := 3                     // all placements x all arrivals
	latest := vstat.Pick(3, 4)    // all placements with latest bases x all arrivals
	triple := vstat.Pick(4, 5)    // all arrivals, rotating placements
	maxN := 5                     // sampled beyond triple
	sample := vstat.Pick(2500, 0) // number of sampled triples of size > triple (whole run, all shards)
	if v := envInt("C06_MAXN", 0); v > 0 {
		maxN = v
	}
	if v := envInt("C06_FULL", 0); v > 0 {
		full = v
	}
	if v := envInt("C06_SAMPLE", -1); v >= 0 {
		sample = v
	}
	if v := envInt("C06_TRIPLE", 0); v > 0 {
		triple = v
	}
	worldNo := map[uint64]int{}
	for n := 1; n <= maxN; n++ {
		perms := permutations(n)
		for i := range perms {
			for j := range perms[i] {
				perms[i][j]++
			}
		}
		nCuts := 1 << uint(n-1)
		arrivals := len(perms) * nCuts
		shs := shapes(n)
		zero := make([]int, n)
		// id orders per shape, up to sibling order and automorphism
		idos := make([][][]int, len(shs))
		total := 0
		for si, s := range shs {
			seenRank := map[string]bool{}
			for _, rank := range s.idOrders(false) {
				if k := s.worldKey(World{N: n, Parents: s.parents, Rank: rank, Snap: zero, Base: zero}); !seenRank[k] {
					seenRank[k] = true
					idos[si] = append(idos[si], rank)
				}
			}
			total += len(idos[si]) * arrivals
		}
		for si, s := range shs {
			snaps, bases := s.placements(false)
			seen := map[string]bool{}
			for ki, rank := range idos[si] {
				mk := func(pl int) World {
					return World{N: n, Parents: s.parents, Rank: rank, Snap: snaps[pl], Base: bases[pl]}
				}
				emit := func(w World, a int) bool {
					// worlds are dealt round-robin in enumeration order (balanced shards)
					wk := vstat.HashJSON(w)
					wi, ok := worldNo[wk]
					if !ok {
						wi = len(worldNo)
						worldNo[wk] = wi
					}
					if wi%shards != shard {
						return true
					}
					c := XCase{W: w, Perm: perms[a/nCuts], Cuts: a % nCuts}
					h := vstat.Hash(seed, si, ki, a)
					if h%3 == 0 { // a third of the cases also drop and rebuild the tree object midway
						c.Reopen = int((h >> 8) & 0xfff)
					}
					return yield(c)
				}
				if n <= full {
					for pl := range snaps {
						w := mk(pl)
						if k := s.worldKey(w); seen[k] {
							continue // isomorphic to a world already enumerated
						} else {
							seen[k] = true
						}
						for a := 0; a < arrivals; a++ {
							if !emit(w, a) {
								return
							}
						}
					}
					continue
				}
				if n <= latest {
					ls, lb := s.placements(true)
					for pl := range ls {
						w := World{N: n, Parents: s.parents, Rank: rank, Snap: ls[pl], Base: lb[pl]}
						if k := s.worldKey(w); seen[k] {
							continue
						} else {
							seen[k] = true
						}
						for a := 0; a < arrivals; a++ {
							if !emit(w, a) {
								return
							}
						}
					}
				}
				stride := 1
				for _, p := range []int{7, 11, 13, 17, 19, 23} {
					if len(snaps)%p != 0 {
						stride = p
						break
					}
				}
				for a := 0; a < arrivals; a++ {
					if n > triple {
						if sample == 0 || vstat.Hash("sample", seed, si, ki, a)%uint64(total) >= uint64(sample) {
							continue
						}
					}
					if !emit(mk((a*stride+ki*31+seed)%len(snaps)), a) {
						return
					}
				}
			}
		}
	}
}

func TestExhaustive(t *testing.T) {
	outerT = t
	defer closeEnv()
	vstat.Enumerate(t, prop, enumerate, runX)
}

// Hand-picked corner cases (also the worlds on which the history tree at two heads lost a
// branch before the commonSnapshot fix in /repo, commit 40e6583).

// R -> a(snapshot), R -> b(snapshot), a -> c, b -> d; children first, one change per batch.
func TestRegConcurrentSnapshotsWithChildren(t *testing.T) {
	outerT = t
	defer closeEnv()
	vstat.One(t, prop, XCase{
		W:    World{N: 4, Parents: [][]int{{0}, {0}, {1}, {2}}, Rank: []int{0, 1, 2, 3}, Snap: []int{1, 1, 0, 0}, Base: []int{0, 0, 1, 2}},
		Perm: []int{4, 3, 2, 1}, Cuts: 7, Reopen: 0xfff,
	}, runX)
}

// a chain of snapshots where b names the root as its base although its parent a is a snapshot.
func TestRegEarlierBase(t *testing.T) {
	outerT = t
	defer closeEnv()
	vstat.One(t, prop, XCase{
		W:    World{N: 4, Parents: [][]int{{0}, {1}, {1}, {2}}, Rank: []int{0, 1, 2, 3}, Snap: []int{1, 1, 1, 1}, Base: []int{0, 0, 1, 2}},
		Perm: []int{1, 3, 2, 4}, Cuts: 4, Reopen: 3940,
	}, runX)
}

// a diamond with a merge, ids chosen against the topological numbering, merge delivered first.
func TestRegMergeFirst(t *testing.T) {
	outerT = t
	defer closeEnv()
	vstat.One(t, prop, XCase{
		W:    World{N: 5, Parents: [][]int{{0}, {0}, {1, 2}, {3}, {1}}, Rank: []int{4, 0, 2, 1, 3}, Snap: []int{0, 1, 0, 1, 0}, Base: []int{0, 0, 0, 0, 0}},
		Perm: []int{3, 4, 5, 2, 1}, Cuts: 5, Reopen: 0x555,
	}, runX)
}
