// Package c06 decides property C06: the order in which a tree presents and stores its
// changes respects causality and is a function of the set of changes held (arrival order,
// batching, duplication, reduce, reopen do not matter), and an Append verdict means the
// previously presented sequence is a prefix of the new one.
//
// The oracle is purely relational: the harness never computes "the right order". It only
// compares views that hold the same set (or a subset) with each other, checks each of
// them against the parent relation, and compares a view with itself before/after an add.
package c06

import (
	"context"
	"fmt"
	"os"
	"strings"
	"testing"

	"github.com/anyproto/any-sync/app/logger"
	"github.com/anyproto/any-sync/commonspace/object/tree/objecttree"

	"verif/harness/internal/vstat"
)

const prop = "C06"

var outerT *testing.T

func TestMain(m *testing.M) {
	if os.Getenv("VERIF_DEBUG") == "" {
		// the tree logs an error for every change whose snapshot base has not arrived yet
		logger.Config{Production: true, DefaultLevel: "fatal", DisableStdErr: true}.ApplyGlobal()
	}
	vstat.Main(m, prop)
}

// ---- views ----------------------------------------------------------------------------

type iterable interface {
	IterateRoot(convert objecttree.ChangeConvertFunc, iterate objecttree.ChangeIterateFunc) error
	IterateFrom(id string, convert objecttree.ChangeConvertFunc, iterate objecttree.ChangeIterateFunc) error
}

func presented(t iterable) ([]string, error) {
	var seq []string
	err := t.IterateRoot(nil, func(c *objecttree.Change) bool {
		seq = append(seq, c.Id)
		return true
	})
	return seq, err
}

func presentedFrom(t iterable, id string) ([]string, error) {
	var seq []string
	err := t.IterateFrom(id, nil, func(c *objecttree.Change) bool {
		seq = append(seq, c.Id)
		return true
	})
	return seq, err
}

type storedChange struct {
	Id, OrderId string
	Prev        []string
	Base        string
}

// scan returns what the storage holds for the tree in the order the storage returns it
// for an order-id scan from the beginning.
func scan(st objecttree.Storage) ([]storedChange, error) {
	var out []storedChange
	err := st.GetAfterOrder(context.Background(), "", func(ctx context.Context, c objecttree.StorageChange) (bool, error) {
		out = append(out, storedChange{Id: c.Id, OrderId: c.OrderId, Prev: append([]string(nil), c.PrevIds...), Base: c.SnapshotId})
		return true, nil
	})
	return out, err
}

func idsOf(sc []storedChange) []string {
	out := make([]string, len(sc))
	for i, c := range sc {
		out[i] = c.Id
	}
	return out
}

// ---- relational oracle ----------------------------------------------------------------

// relation is what the harness knows about the change set independently of the tree:
// who the parents of a change are, and (once some view holding the whole set has been
// observed) the sequence that view presented - every other view is compared with it.
type relation struct {
	parents map[string][]string
	base    map[string]string // snapshot base of a change (class labels only)
	isSnap  map[string]bool   // snapshots (class labels only)
	short   func(string) string
	ref     []string
	refPos  map[string]int
	refName string
}

func newRelation(parents map[string][]string, short func(string) string) *relation {
	if short == nil {
		short = func(s string) string {
			if len(s) > 6 {
				return s[len(s)-6:]
			}
			return s
		}
	}
	return &relation{parents: parents, short: short, base: map[string]string{}, isSnap: map[string]bool{}}
}

// subject is a tree under observation; name maps a change id to the name the relation uses.
type subject struct {
	label string
	tree  objecttree.ObjectTree
	name  func(id string) string
}

func (s *subject) names(ids []string) []string {
	out := make([]string, len(ids))
	for i, id := range ids {
		out[i] = s.name(id)
	}
	return out
}

// viewState is what a subject presented and stored at some moment.
type viewState struct {
	shown  []string
	held   []storedChange
	orders map[string]string
	heads  []string
}

// observe reads the subject's presented sequence and its storage and applies every check
// that concerns a single moment: (a) linear extensions, (b) restriction of the reference,
// (c) storage order == presentation order, completeness of the view.
func (r *relation) observe(s *subject, what string) (*viewState, error) {
	shown, err := presented(s.tree)
	if err != nil {
		return nil, fmt.Errorf("%s: IterateRoot: %v", what, err)
	}
	shown = s.names(shown)
	held, err := scan(s.tree.Storage())
	if err != nil {
		return nil, fmt.Errorf("%s: storage scan: %v", what, err)
	}
	for i := range held {
		held[i].Id = s.name(held[i].Id)
	}
	if err := r.linearExtension(what, shown); err != nil {
		return nil, err
	}
	if err := r.restrictionOfRef(what, shown); err != nil {
		return nil, err
	}
	if err := r.storageOrder(what, held, shown); err != nil {
		return nil, err
	}
	if err := r.restrictionOfRef(what+" storage order", idsOf(held)); err != nil {
		return nil, err
	}
	if err := r.completeView(what, shown, idsOf(held), nil); err != nil {
		return nil, err
	}
	s.tree.Lock()
	heads := s.names(s.tree.Heads())
	s.tree.Unlock()
	return &viewState{shown: shown, held: held, orders: orderMap(held), heads: heads}, nil
}

// checkedAdd feeds one payload and applies every check that relates the moment before
// with the moment after: (c) order ids kept, (d) verdict vs sequences, (e) duplicates.
func (r *relation) checkedAdd(s *subject, p objecttree.RawChangesPayload, prev *viewState, classes map[string]bool, step string) (objecttree.AddResult, *viewState, error) {
	ids := make([]string, len(p.RawChanges))
	for i, c := range p.RawChanges {
		ids[i] = s.name(c.Id)
	}
	// what the model expects to happen inside (class labels only)
	s.tree.Lock()
	rootName := s.name(s.tree.Root().Id)
	allHeld := true
	newSnap := map[string]bool{}
	var fresh []string
	for i, c := range p.RawChanges {
		if _, stored := prev.orders[ids[i]]; !stored {
			allHeld = false
		}
		if !s.tree.HasChanges(c.Id) {
			fresh = append(fresh, ids[i])
			if r.isSnap[ids[i]] {
				newSnap[ids[i]] = true
			}
		}
	}
	fromStorage := false
	for _, n := range fresh {
		if b := r.base[n]; b != rootName && !newSnap[b] {
			fromStorage = true
		}
	}
	res, err := s.tree.AddRawChanges(context.Background(), p)
	s.tree.Unlock()
	what := fmt.Sprintf("%s after %s %s", s.label, step, r.show(ids))
	if err != nil {
		return res, nil, fmt.Errorf("%s: AddRawChanges of honest changes failed: %v", what, err)
	}
	what += " (" + modeName(res.Mode) + ")"
	now, err := r.observe(s, what)
	if err != nil {
		return res, nil, err
	}
	if err := r.orderIdsKept(what, prev.orders, now.held); err != nil {
		return res, nil, err
	}
	trim, err := r.verdict(what, res.Mode, prev.shown, now.shown)
	if err != nil {
		return res, nil, err
	}
	if trim && res.Mode == objecttree.Append {
		classes["append-after-reduce-dropped-front"] = true
	}
	if res.Mode == objecttree.Nothing {
		if trim {
			classes["nothing-with-reduce"] = true
		}
		if len(now.held) != len(prev.held) {
			return res, nil, fmt.Errorf("(d) %s: the add reported Nothing but the stored set changed: %d -> %d changes", what, len(prev.held), len(now.held))
		}
		if !sameSet(now.heads, prev.heads) {
			return res, nil, fmt.Errorf("(d) %s: the add reported Nothing but the heads changed %s -> %s", what, r.show(prev.heads), r.show(now.heads))
		}
	}
	if allHeld {
		classes["duplicate-batch"] = true
		if len(now.held) != len(prev.held) {
			return res, nil, fmt.Errorf("(e) %s: a payload of already stored changes changed the stored set: %d -> %d changes", what, len(prev.held), len(now.held))
		}
		if !sameSet(now.heads, prev.heads) {
			return res, nil, fmt.Errorf("(e) %s: a payload of already stored changes changed the heads %v -> %v", what, r.show(prev.heads), r.show(now.heads))
		}
		if len(res.Added) != 0 {
			return res, nil, fmt.Errorf("(e) %s: a payload of already stored changes reports %d added changes", what, len(res.Added))
		}
	}
	switch res.Mode {
	case objecttree.Append:
		classes["verdict-append"] = true
	case objecttree.Rebuild:
		classes["verdict-rebuild"] = true
	case objecttree.Nothing:
		classes["verdict-nothing"] = true
	}
	if fromStorage {
		classes["rebuild-from-storage"] = true
	}
	if len(now.held) > len(prev.held) && len(now.held)-len(prev.held) < len(fresh) {
		classes["partly-unattached-batch"] = true
	}
	return res, now, nil
}

func (r *relation) setRef(name string, seq []string) {
	r.ref = append([]string(nil), seq...)
	r.refName = name
	r.refPos = make(map[string]int, len(seq))
	for i, id := range seq {
		r.refPos[id] = i
	}
}

func (r *relation) show(seq []string) string {
	out := make([]string, len(seq))
	for i, s := range seq {
		out[i] = r.short(s)
	}
	return "[" + strings.Join(out, " ") + "]"
}

// linearExtension: (a) no change twice, every change after all of its parents that the
// view contains.
func (r *relation) linearExtension(view string, seq []string) error {
	pos := make(map[string]int, len(seq))
	for i, id := range seq {
		if j, dup := pos[id]; dup {
			return fmt.Errorf("(a) %s presents change %s twice (positions %d and %d): %s", view, r.short(id), j, i, r.show(seq))
		}
		pos[id] = i
		if _, known := r.parents[id]; !known {
			return fmt.Errorf("(a) %s presents change %s which is not in the change set", view, r.short(id))
		}
	}
	for i, id := range seq {
		for _, p := range r.parents[id] {
			if j, ok := pos[p]; ok && j > i {
				return fmt.Errorf("(a) %s is not a linear extension of the parent relation: %s (position %d) comes before its parent %s (position %d): %s", view, r.short(id), i, r.short(p), j, r.show(seq))
			}
		}
	}
	return nil
}

// restrictionOfRef: (b) the view is the reference sequence restricted to the view's members.
func (r *relation) restrictionOfRef(view string, seq []string) error {
	if r.ref == nil {
		return nil
	}
	last := -1
	for i, id := range seq {
		p, ok := r.refPos[id]
		if !ok {
			return fmt.Errorf("(b) %s presents %s which %s (holding the whole set) does not contain", view, r.short(id), r.refName)
		}
		if p <= last {
			return fmt.Errorf("(b) %s orders %s before %s, %s orders them the other way round\n  %s: %s\n  %s: %s",
				view, r.short(seq[i-1]), r.short(id), r.refName, view, r.show(seq), r.refName, r.show(restrict(r.ref, seq)))
		}
		last = p
	}
	return nil
}

func restrict(full, members []string) []string {
	in := make(map[string]bool, len(members))
	for _, m := range members {
		in[m] = true
	}
	var out []string
	for _, id := range full {
		if in[id] {
			out = append(out, id)
		}
	}
	return out
}

// sameRestricted: two sequences agree on the members they share.
func (r *relation) sameRestricted(viewA string, a []string, viewB string, b []string) error {
	ra, rb := restrict(a, b), restrict(b, a)
	for i := range ra {
		if i >= len(rb) || ra[i] != rb[i] {
			return fmt.Errorf("%s and %s order their common members differently\n  %s: %s\n  %s: %s", viewA, viewB, viewA, r.show(ra), viewB, r.show(rb))
		}
	}
	return nil
}

// completeView: a tree view rooted at seq[0] must contain every held change that descends
// from its root (this is what "the view contains" means for a tree; a view that silently
// lacks members would make the restricted comparison vacuous).
func (r *relation) completeView(view string, seq []string, held []string, upTo []string) error {
	if len(seq) == 0 {
		return fmt.Errorf("%s presents nothing", view)
	}
	root := seq[0]
	in := make(map[string]bool, len(seq))
	for _, id := range seq {
		in[id] = true
	}
	heldSet := make(map[string]bool, len(held))
	for _, id := range held {
		heldSet[id] = true
	}
	// descendants of root among held, in reference-free fashion: fixpoint over parents
	desc := map[string]bool{root: true}
	for changed := true; changed; {
		changed = false
		for _, id := range held {
			if desc[id] {
				continue
			}
			for _, p := range r.parents[id] {
				if desc[p] {
					desc[id] = true
					changed = true
					break
				}
			}
		}
	}
	var limit map[string]bool
	if upTo != nil { // history views: only ancestors-or-self of the requested heads
		limit = map[string]bool{}
		stack := append([]string(nil), upTo...)
		for len(stack) > 0 {
			id := stack[len(stack)-1]
			stack = stack[:len(stack)-1]
			if limit[id] {
				continue
			}
			limit[id] = true
			stack = append(stack, r.parents[id]...)
		}
	}
	for _, id := range held {
		want := desc[id] && (limit == nil || limit[id])
		if want && !in[id] {
			return fmt.Errorf("view well-formedness: %s (rooted at %s) lacks held change %s which descends from its root: %s", view, r.short(root), r.short(id), r.show(seq))
		}
		if !want && in[id] && limit != nil {
			return fmt.Errorf("view well-formedness: %s (rooted at %s) contains %s which is not an ancestor of the requested heads: %s", view, r.short(root), r.short(id), r.show(seq))
		}
	}
	for _, id := range seq {
		if !heldSet[id] {
			return fmt.Errorf("%s presents %s which the storage does not hold", view, r.short(id))
		}
	}
	return nil
}

// storageOrder: (a)+(c) the storage scan is strictly increasing in OrderId, a linear
// extension, and agrees with the presented sequence on the presented members.
func (r *relation) storageOrder(view string, sc []storedChange, shown []string) error {
	for i := 1; i < len(sc); i++ {
		if sc[i-1].OrderId >= sc[i].OrderId {
			return fmt.Errorf("(c) %s: storage scan is not strictly ordered by order id: %s has %q, next %s has %q", view, r.short(sc[i-1].Id), sc[i-1].OrderId, r.short(sc[i].Id), sc[i].OrderId)
		}
	}
	ids := idsOf(sc)
	if err := r.linearExtension(view+" storage order", ids); err != nil {
		return err
	}
	if shown != nil {
		got := restrict(ids, shown)
		if len(got) != len(shown) {
			return fmt.Errorf("(c) %s presents %d changes, only %d of them are stored: shown %s stored %s", view, len(shown), len(got), r.show(shown), r.show(ids))
		}
		for i := range got {
			if got[i] != shown[i] {
				return fmt.Errorf("(c) %s: storage order differs from presentation order\n  stored (restricted): %s\n  presented:           %s", view, r.show(got), r.show(shown))
			}
		}
	}
	return nil
}

// orderIdsKept: (c) no order id recorded earlier was rewritten or lost.
func (r *relation) orderIdsKept(view string, before map[string]string, sc []storedChange) error {
	now := make(map[string]string, len(sc))
	for _, c := range sc {
		now[c.Id] = c.OrderId
	}
	for id, o := range before {
		n, ok := now[id]
		if !ok {
			return fmt.Errorf("(c) %s: stored change %s disappeared from storage", view, r.short(id))
		}
		if n != o {
			return fmt.Errorf("(c) %s: order id of already stored change %s was rewritten by a later add: %q -> %q", view, r.short(id), o, n)
		}
	}
	return nil
}

func orderMap(sc []storedChange) map[string]string {
	m := make(map[string]string, len(sc))
	for _, c := range sc {
		m[c.Id] = c.OrderId
	}
	return m
}

// verdict: (d) Append => what was presented before (restricted to what the view still
// contains - a reduce may have dropped a front part) is a prefix of what is presented now
// and the consumer's resume point (the last change presented before) is still there;
// Nothing => identical. frontTrim reports the "reduce dropped a front part" situation.
func (r *relation) verdict(view string, mode objecttree.Mode, before, after []string) (frontTrim bool, err error) {
	switch mode {
	case objecttree.Nothing:
		// nothing new, no reordering; the call may have reduced the tree (a reduce runs in every
		// AddRawChanges call), so the view may have lost a front part - and only a front part
		if !frontTrimOnly(before, after) {
			return false, fmt.Errorf("(d) %s: the add reported Nothing but the presented sequence is not the previous one (restricted to what the view still contains)\n  before: %s\n  after:  %s", view, r.show(before), r.show(after))
		}
		frontTrim = len(after) != len(before)
	case objecttree.Append:
		kept := restrict(before, after)
		if len(kept) == 0 || kept[len(kept)-1] != before[len(before)-1] {
			return false, fmt.Errorf("(d) %s: the add reported Append but the last change presented before (%s) is no longer presented\n  before: %s\n  after:  %s", view, r.short(before[len(before)-1]), r.show(before), r.show(after))
		}
		if len(kept) > len(after) {
			return false, fmt.Errorf("(d) %s: Append but the sequence shrank\n  before: %s\n  after:  %s", view, r.show(before), r.show(after))
		}
		for i := range kept {
			if kept[i] != after[i] {
				return false, fmt.Errorf("(d) %s: the add reported Append but the previously presented sequence is not a prefix of the new one (position %d: %s vs %s)\n  before: %s\n  after:  %s", view, i, r.short(kept[i]), r.short(after[i]), r.show(before), r.show(after))
			}
		}
		frontTrim = len(kept) != len(before)
	}
	return frontTrim, nil
}

// frontTrimOnly: after is before without a (possibly empty) front part.
func frontTrimOnly(before, after []string) bool {
	if len(after) == 0 || len(after) > len(before) {
		return false
	}
	return sameSeq(before[len(before)-len(after):], after)
}

func sameSeq(a, b []string) bool {
	if len(a) != len(b) {
		return false
	}
	for i := range a {
		if a[i] != b[i] {
			return false
		}
	}
	return true
}

func modeName(m objecttree.Mode) string {
	switch m {
	case objecttree.Append:
		return "Append"
	case objecttree.Rebuild:
		return "Rebuild"
	case objecttree.Nothing:
		return "Nothing"
	}
	return fmt.Sprint(int(m))
}

func sameSet(a, b []string) bool {
	if len(a) != len(b) {
		return false
	}
	m := make(map[string]int, len(a))
	for _, x := range a {
		m[x]++
	}
	for _, x := range b {
		m[x]--
		if m[x] < 0 {
			return false
		}
	}
	return true
}

func TestReplay(t *testing.T) {
	outerT = t
	defer closeEnv()
	t.Run("TestExhaustive", func(t *testing.T) { vstat.Replay(t, prop, "TestExhaustive", runX) })
	t.Run("TestRandom", func(t *testing.T) { vstat.Replay(t, prop, "TestRandom", runR) })
}
