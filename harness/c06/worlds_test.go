package c06

import (
	"fmt"
	"sort"
	"strings"
)

// World is a small change set over mock changes: node 0 is the tree root, nodes 1..N are
// the non-root changes, numbered in a topological order (parents have smaller numbers).
// Everything is plain data; ids are derived from Rank when the world is materialised.
type World struct {
	N       int     `json:"n"`
	Parents [][]int `json:"parents"` // Parents[i-1]: parents of node i, ascending; an antichain (the author's heads)
	Rank    []int   `json:"rank"`    // Rank[i-1]: lexicographic rank of node i's id among the non-root ids
	Snap    []int   `json:"snap"`    // Snap[i-1] = 1: node i is a snapshot
	Base    []int   `json:"base"`    // Base[i-1]: snapshot base of node i (0 = root) - on the common snapshot path of its parents
}

func (w World) parents(i int) []int { return w.Parents[i-1] }
func (w World) isSnap(i int) bool   { return i == 0 || w.Snap[i-1] == 1 }
func (w World) base(i int) int      { return w.Base[i-1] }

// anc[i] = bitmask of strict ancestors of node i.
func ancestors(n int, parents [][]int) []uint {
	anc := make([]uint, n+1)
	for i := 1; i <= n; i++ {
		for _, p := range parents[i-1] {
			anc[i] |= anc[p] | 1<<uint(p)
		}
	}
	return anc
}

// snapChain returns the snapshot chain an author sitting on node p could be rooted at:
// p itself if it is a snapshot, then its base, the base's base, ... down to the root.
func (w World) snapChain(p int) []int {
	var out []int
	if w.isSnap(p) {
		out = append(out, p)
	}
	for p != 0 {
		p = w.base(p)
		out = append(out, p)
	}
	return out
}

// commonPath returns the snapshots common to the chains of all given nodes, latest first.
func (w World) commonPath(nodes []int) []int {
	first := w.snapChain(nodes[0])
	var out []int
	for _, s := range first {
		ok := true
		for _, q := range nodes[1:] {
			found := false
			for _, t := range w.snapChain(q) {
				if t == s {
					found = true
					break
				}
			}
			if !found {
				ok = false
				break
			}
		}
		if ok {
			out = append(out, s)
		}
	}
	return out
}

func (w World) heads() []int {
	isParent := make([]bool, w.N+1)
	for i := 1; i <= w.N; i++ {
		for _, p := range w.parents(i) {
			isParent[p] = true
		}
	}
	var h []int
	for i := 0; i <= w.N; i++ {
		if !isParent[i] {
			h = append(h, i)
		}
	}
	return h
}

// hasFork: some node has >= 2 children.
func (w World) hasFork() bool {
	cnt := make([]int, w.N+1)
	for i := 1; i <= w.N; i++ {
		for _, p := range w.parents(i) {
			cnt[p]++
			if cnt[p] >= 2 {
				return true
			}
		}
	}
	return false
}

func (w World) hasMerge() bool {
	for i := 1; i <= w.N; i++ {
		if len(w.parents(i)) >= 2 {
			return true
		}
	}
	return false
}

// snapshotInsideFork: a snapshot (non-root) that has a sibling or is concurrent with another change.
func (w World) snapshotInsideFork() bool {
	anc := ancestors(w.N, w.Parents)
	for i := 1; i <= w.N; i++ {
		if !w.isSnap(i) {
			continue
		}
		for j := 1; j <= w.N; j++ {
			if j != i && anc[i]&(1<<uint(j)) == 0 && anc[j]&(1<<uint(i)) == 0 {
				return true
			}
		}
	}
	return false
}

func (w World) snapshots() int {
	c := 0
	for _, s := range w.Snap {
		c += s
	}
	return c
}

// earlierBase: some change names a base that is not the latest common snapshot of its parents.
func (w World) earlierBase() bool {
	for i := 1; i <= w.N; i++ {
		if cp := w.commonPath(w.parents(i)); len(cp) > 0 && cp[0] != w.base(i) {
			return true
		}
	}
	return false
}

// ---- shapes ---------------------------------------------------------------------------

type shape struct {
	n       int
	parents [][]int
	aut     [][]int // automorphisms: aut[k][i] = image of node i (index 0..n, aut[k][0] = 0)
}

func encodeParents(n int, parents [][]int) string {
	var sb strings.Builder
	for i := 1; i <= n; i++ {
		for _, p := range parents[i-1] {
			sb.WriteByte(byte('0' + p))
		}
		sb.WriteByte(';')
	}
	return sb.String()
}

func permutations(n int) [][]int {
	var out [][]int
	p := make([]int, n)
	for i := range p {
		p[i] = i
	}
	var rec func(k int)
	rec = func(k int) {
		if k == n {
			out = append(out, append([]int(nil), p...))
			return
		}
		for i := k; i < n; i++ {
			p[k], p[i] = p[i], p[k]
			rec(k + 1)
			p[k], p[i] = p[i], p[k]
		}
	}
	rec(0)
	sort.Slice(out, func(a, b int) bool {
		for i := range out[a] {
			if out[a][i] != out[b][i] {
				return out[a][i] < out[b][i]
			}
		}
		return false
	})
	return out
}

// relabel applies node map m (m[0]=0, m[i] = new number of node i) to the parent lists; ok
// is false when the new numbering is not topological.
func relabel(n int, parents [][]int, m []int) (out [][]int, ok bool) {
	out = make([][]int, n)
	for i := 1; i <= n; i++ {
		var ps []int
		for _, p := range parents[i-1] {
			if m[p] >= m[i] {
				return nil, false
			}
			ps = append(ps, m[p])
		}
		sort.Ints(ps)
		out[m[i]-1] = ps
	}
	return out, true
}

func nodeMaps(n int) [][]int {
	var out [][]int
	for _, p := range permutations(n) {
		m := make([]int, n+1)
		for i, v := range p {
			m[i+1] = v + 1
		}
		out = append(out, m)
	}
	return out
}

// shapes returns every DAG with n non-root changes whose parent sets are non-empty
// antichains (what AddContent produces: the author's heads), one per isomorphism class.
func shapes(n int) []shape {
	maps := nodeMaps(n)
	seen := map[string]bool{}
	var out []shape
	parents := make([][]int, 0, n)
	var rec func(i int)
	rec = func(i int) {
		if i > n {
			best := ""
			for _, m := range maps {
				if r, ok := relabel(n, parents, m); ok {
					if e := encodeParents(n, r); best == "" || e < best {
						best = e
					}
				}
			}
			if seen[best] {
				return
			}
			seen[best] = true
			sh := shape{n: n, parents: clone2(parents)}
			self := encodeParents(n, parents)
			for _, m := range maps {
				if r, ok := relabel(n, parents, m); ok && encodeParents(n, r) == self {
					sh.aut = append(sh.aut, m)
				}
			}
			out = append(out, sh)
			return
		}
		anc := ancestors(i-1, parents)
		for mask := uint(1); mask < 1<<uint(i); mask++ {
			ok := true
			var ps []int
			for p := 0; p < i && ok; p++ {
				if mask&(1<<uint(p)) == 0 {
					continue
				}
				if anc[p]&mask != 0 { // an ancestor of p is also chosen: not an antichain
					ok = false
				}
				ps = append(ps, p)
			}
			if !ok {
				continue
			}
			parents = append(parents, ps)
			rec(i + 1)
			parents = parents[:len(parents)-1]
		}
	}
	rec(1)
	return out
}

func clone2(a [][]int) [][]int {
	out := make([][]int, len(a))
	for i := range a {
		out[i] = append([]int(nil), a[i]...)
	}
	return out
}

// siblingPairs: pairs (i<j) of non-root nodes sharing at least one parent.
func (s shape) siblingPairs() [][2]int {
	var out [][2]int
	for i := 1; i <= s.n; i++ {
		for j := i + 1; j <= s.n; j++ {
			share := false
			for _, p := range s.parents[i-1] {
				for _, q := range s.parents[j-1] {
					if p == q {
						share = true
					}
				}
			}
			if share {
				out = append(out, [2]int{i, j})
			}
		}
	}
	return out
}

// idOrders returns one rank assignment per distinct relative order of siblings (all n!
// assignments when full is set: the order of non-siblings then varies too).
func (s shape) idOrders(full bool) [][]int {
	pairs := s.siblingPairs()
	seen := map[string]bool{}
	var out [][]int
	for _, p := range permutations(s.n) {
		if !full {
			var sb strings.Builder
			for _, pr := range pairs {
				if p[pr[0]-1] < p[pr[1]-1] {
					sb.WriteByte('<')
				} else {
					sb.WriteByte('>')
				}
			}
			if seen[sb.String()] {
				continue
			}
			seen[sb.String()] = true
		}
		out = append(out, p)
	}
	return out
}

// placements returns the honest snapshot placements of a shape: every choice of snapshot
// flags, and for every change every base on the common snapshot path of its parents
// (latestOnly: only the latest one, what an author whose tree is fully reduced chooses).
func (s shape) placements(latestOnly bool) (snaps [][]int, bases [][]int) {
	w := World{N: s.n, Parents: s.parents, Snap: make([]int, s.n), Base: make([]int, s.n)}
	var rec func(i int)
	rec = func(i int) {
		if i > s.n {
			snaps = append(snaps, append([]int(nil), w.Snap...))
			bases = append(bases, append([]int(nil), w.Base...))
			return
		}
		cp := w.commonPath(s.parents[i-1])
		if latestOnly {
			cp = cp[:1]
		}
		for _, b := range cp {
			w.Base[i-1] = b
			for f := 0; f <= 1; f++ {
				w.Snap[i-1] = f
				rec(i + 1)
			}
		}
		w.Snap[i-1], w.Base[i-1] = 0, 0
	}
	rec(1)
	return
}

// worldKey is the canonical encoding of a decorated shape under the shape's automorphisms
// (isomorphic worlds present the same behaviour: arrival orders are enumerated anyway).
func (s shape) worldKey(w World) string {
	pairs := s.siblingPairs()
	best := ""
	for _, m := range s.aut {
		inv := make([]int, s.n+1)
		for i, v := range m {
			inv[v] = i
		}
		var sb strings.Builder
		// sibling order signature, snapshot flags and bases as seen after renumbering by m
		for _, pr := range pairs {
			a, b := inv[pr[0]], inv[pr[1]]
			if w.Rank[a-1] < w.Rank[b-1] {
				sb.WriteByte('<')
			} else {
				sb.WriteByte('>')
			}
		}
		for i := 1; i <= s.n; i++ {
			o := inv[i]
			fmt.Fprintf(&sb, "|%d%d", w.Snap[o-1], m[w.Base[o-1]])
		}
		if e := sb.String(); best == "" || e < best {
			best = e
		}
	}
	return best
}
