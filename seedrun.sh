#!/bin/bash
# usage: seedrun.sh <ID> <variant> [extra check ids...]
# Verifies an independently seeded change in /tmp/seed-<ID>-out/<variant>/ and runs the checks against it.
#  1. demo fails with the patch, passes without (scratch worktree)
#  2. touched packages' own tests still pass with the patch
#  3. ./vcheck <ID> quick (and extra ids) against the patched worktree via VERIF_REPO
# Writes /verif/seeded/<ID>-<variant>/{patch.diff,demo_test.go,meta.json,result.json}
ID=$1; V=$2; shift 2; EXTRA="$@"
R=${SEEDROUND:-}
SRC=/tmp/seed$R-$ID-out/$V
DST=/verif/seeded/$ID-$V$R
[ -f $SRC/patch.diff ] || { echo "no $SRC/patch.diff"; exit 3; }
export GOFLAGS=-mod=mod GOPROXY=off
WT=/tmp/wt-seedrun-$ID-$V-$$
git -C /repo worktree add -q --detach $WT HEAD || exit 3
trap "git -C /repo worktree remove --force $WT; rm -rf /verif/replays/$ID" EXIT
place=$(head -1 $SRC/demo_test.go | sed -n 's#^// place at: *##p' | tr -d ' \r')
[ -n "$place" ] || { echo "demo has no place-at line"; exit 3; }
pkgdir=$(dirname $place)
cp $SRC/demo_test.go $WT/$place
cd $WT
run_demo() { go test -count=1 -vet=off ./$pkgdir/ -run 'Seed|seed|ZZ|Zz' 2>&1 | tail -5; return ${PIPESTATUS[0]}; }
echo "--- demo WITHOUT patch (must pass)"; run_demo; without=$?
git apply --whitespace=nowarn $SRC/patch.diff || { echo "PATCH DOES NOT APPLY"; exit 3; }
go build ./... || { echo "DOES NOT COMPILE"; exit 3; }
echo "--- demo WITH patch (must fail)"; run_demo; with=$?
rm -f $WT/$place
touched=$(git diff --name-only | xargs -n1 dirname | sort -u | sed 's#^#./#;s#$#/...#' | tr '\n' ' ')
echo "--- package tests with patch: $touched"
go test -count=1 -vet=off $touched 2>&1 | grep -E "^(ok|FAIL|---)" | head -20
pk=${PIPESTATUS[0]}
cd /verif
declare -A res
for c in $ID $EXTRA; do
  echo "--- ./vcheck $c quick against the seeded change"
  VERIF_REPO=$WT ./vcheck $c quick | grep -E "quick:|VIOLATION|INCONCL" | head -4
  res[$c]=${PIPESTATUS[0]}
done
mkdir -p $DST
cp $SRC/patch.diff $SRC/demo_test.go $SRC/meta.json $DST/ 2>/dev/null
{
 echo "{\"id\": \"$ID-$V$R\", \"demo_without_patch_rc\": $without, \"demo_with_patch_rc\": $with, \"package_tests_rc\": $pk, \"checks\": {"
 first=1; for c in $ID $EXTRA; do [ $first = 1 ] || echo ","; first=0; echo -n "  \"$c\": ${res[$c]}"; done
 echo "}}"
} > $DST/result.json
cat $DST/result.json
